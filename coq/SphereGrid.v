(** * SphereGrid: gwb-grid's sphere mesh (source/gwb-grid/main.cc:216-274, 1118-1489), generic over [Num].
    Twelve blocks of (n+1)^2 nodes are laid on the faces of a tetrahedron-based partition, projected on the unit sphere,
    merged along their hulls (nodes closer than 1e-12 * outer radius in every coordinate), renumbered, and stacked in
    n_cell_z + 1 layers between the inner and the outer radius. *)
From Coq Require Import List Arith ZArith Lia Bool.
From WB Require Import Num Base Grid.
Import ListNotations.

Section SphereGrid.
  Context {F : Type} {NF : Num F}.
  Local Open Scope num_scope.

  Definition spt : Type := (F * F) * F.
  Definition px (p : spt) : F := fst (fst p).
  Definition py (p : spt) : F := snd (fst p).
  Definition pz (p : spt) : F := snd p.
  Definition mk3 (x y z : F) : spt := ((x, y), z).

  Definition fnat (i : nat) : F := fofZ (Z.of_nat i).
  Definition sg_three : F := fofZ 3.
  Definition quarter : F := fdec 25 (-2).

  Definition sg_norm (p : spt) : F := fsqrt (((px p * px p) + (py p * py p)) + (pz p * pz p)).

  (** [project_on_sphere] *)
  Definition sg_project (radius : F) (p : spt) : spt :=
    let r := sg_norm p in
    let theta := fatan2 (py p) (px p) in
    let phi := facos (pz p / r) in
    mk3 ((radius * fcos theta) * fsin phi) ((radius * fsin theta) * fsin phi) (radius * fcos phi).

  (** the fourteen points the blocks hang from *)
  Definition comb3 (a b c : spt) : spt :=
    mk3 (((px a + px b) + px c) / sg_three) (((py a + py b) + py c) / sg_three) (((pz a + pz b) + pz c) / sg_three).
  Definition sg_mid (a b : spt) : spt := mk3 ((px a + px b) / f2) ((py a + py b) / f2) ((pz a + pz b) / f2).

  Definition cA : spt := mk3 (- f1) f0 ((- f1) / fsqrt f2).
  Definition cB : spt := mk3 f1 f0 ((- f1) / fsqrt f2).
  Definition cC : spt := mk3 f0 (- f1) (f1 / fsqrt f2).
  Definition cD : spt := mk3 f0 f1 (f1 / fsqrt f2).
  Definition cM := comb3 cA cB cC.
  Definition cN := comb3 cA cD cC.
  Definition cP := comb3 cA cD cB.
  Definition cQ := comb3 cC cD cB.
  Definition cF := sg_mid cB cC.
  Definition cG := sg_mid cA cC.
  Definition cE := sg_mid cB cA.
  Definition cH := sg_mid cD cC.
  Definition cJ := sg_mid cD cA.
  Definition cK := sg_mid cD cB.

  Definition sgP (p : spt) : spt := sg_project f1 p.

  (** the corner quadruples of the twelve [lay_points] calls, in block order *)
  Definition block_corners : list (spt * spt * spt * spt) :=
    [ (sgP cM, sgP cG, sgP cA, sgP cE); (sgP cF, sgP cM, sgP cE, sgP cB); (sgP cC, sgP cG, sgP cM, sgP cF); (sgP cG, sgP cN, sgP cJ, sgP cA);
      (sgP cC, sgP cH, sgP cN, sgP cG); (sgP cH, sgP cD, sgP cJ, sgP cN); (sgP cA, sgP cJ, sgP cP, sgP cE); (sgP cJ, sgP cD, sgP cK, sgP cP);
      (sgP cP, sgP cK, sgP cB, sgP cE); (sgP cQ, sgP cK, sgP cD, sgP cH); (sgP cQ, sgP cH, sgP cC, sgP cF); (sgP cQ, sgP cF, sgP cB, sgP cK) ].

  (** one node of [lay_points]: equiangular coordinates, bilinear map of the four corners, hull flag *)
  Definition lay_point (level : nat) (q : spt * spt * spt * spt) (i j : nat) : spt * bool :=
    let '(p1, p2, p3, p4) := q in
    let pi4 := fpi * quarter in
    let x0 := (- pi4) + (((fnat i * f2) * pi4) / fnat level) in
    let y0 := (- pi4) + (((fnat j * f2) * pi4) / fnat level) in
    let r := ftan x0 in
    let s := ftan y0 in
    let N1 := (quarter * (f1 - r)) * (f1 - s) in
    let N2 := (quarter * (f1 + r)) * (f1 - s) in
    let N3 := (quarter * (f1 + r)) * (f1 + s) in
    let N4 := (quarter * (f1 - r)) * (f1 + s) in
    let co (c : spt -> F) := (((c p1 * N1) + (c p2 * N2)) + (c p3 * N3)) + (c p4 * N4) in
    (mk3 (co px) (co py) (co pz),
     (i =? 0)%nat || (j =? 0)%nat || (i =? level)%nat || (j =? level)%nat).

  Definition lay_points (level : nat) (q : spt * spt * spt * spt) : list (spt * bool) :=
    flat_map (fun j => map (fun i => lay_point level q i j) (seq 0 (level + 1))) (seq 0 (level + 1)).

  (** all block nodes, block after block, projected on the unit sphere ([temp_x/y/z], [sides]) *)
  Definition all_nodes (level : nat) : list (spt * bool) :=
    flat_map (fun q => map (fun ph => (sg_project f1 (fst ph), snd ph)) (lay_points level q)) block_corners.

  (** ** merging the hulls *)
  Definition sg_close (dist : F) (p q : spt) : bool :=
    (fabs (px p - px q) <? dist) && (fabs (py p - py q) <? dist) && (fabs (pz p - pz q) <? dist).

  Fixpoint find_dup (dist : F) (p : spt) (cands : list (spt * bool)) (j : nat) : option nat :=
    match cands with
    | [] => None
    | (q, s) :: r => if s && sg_close dist p q then Some j else find_dup dist p r (S j)
    end.

  (** [point_to] of node i when it is a double point: the first earlier hull node j < i-1 within the tolerance
      (the loop starts at i = 1 and compares with j = 0 .. i-2) *)
  Definition dup_of (dist : F) (all : list (spt * bool)) (i : nat) (ps : spt * bool) : option nat :=
    if (1 <=? i)%nat && snd ps then find_dup dist (fst ps) (firstn (i - 1) all) 0 else None.

  Fixpoint dups_from (dist : F) (all rest : list (spt * bool)) (i : nat) : list (option nat) :=
    match rest with
    | [] => []
    | ps :: r => dup_of dist all i ps :: dups_from dist all r (S i)
    end.
  Definition dups (dist : F) (all : list (spt * bool)) : list (option nat) := dups_from dist all all 0.

  (** [sg_compact]: position among the nodes that are kept; the entry of a double point is never written (0) *)
  Fixpoint compact_from (ds : list (option nat)) (counter : nat) : list nat :=
    match ds with
    | [] => []
    | None :: r => counter :: compact_from r (S counter)
    | Some _ :: r => 0%nat :: compact_from r counter
    end.
  Definition sg_compact (ds : list (option nat)) : list nat := compact_from ds 0.

  Definition n_kept (ds : list (option nat)) : nat := length (filter (fun d => match d with None => true | Some _ => false end) ds).

  Definition sg_snap (v : F) : F := if fabs v <? fdec 1 (-8) then f0 else v.

  Fixpoint kept_points (all : list (spt * bool)) (ds : list (option nat)) : list spt :=
    match all, ds with
    | (p, _) :: r, None :: rd => mk3 (sg_snap (px p)) (sg_snap (py p)) (sg_snap (pz p)) :: kept_points r rd
    | _ :: r, Some _ :: rd => kept_points r rd
    | _, _ => []
    end.

  (** shell connectivity: block cell -> global block node -> [point_to] -> [sg_compact] *)
  Definition block_np (level : nat) : nat := (level + 1) * (level + 1).
  Definition point_to (ds : list (option nat)) (i : nat) : nat :=
    match nth i ds None with Some j => j | None => i end.
  Definition shell_cells (level : nat) (ds : list (option nat)) : list (list nat) :=
    let cp := sg_compact ds in
    flat_map (fun b => map (fun c => map (fun v => nth (point_to ds (v + b * block_np level)) cp 0%nat) c) (cells2 level level))
             (seq 0 12).

  (** every [point_to] target is itself kept (otherwise its [sg_compact] entry is the unwritten 0) *)
  Definition targets_ok (ds : list (option nat)) : bool :=
    forallb (fun d => match d with None => true | Some j => match nth j ds None with None => true | Some _ => false end end) ds.

  (** ** the layers *)
  Definition layer_radius (inner outer : F) (nz i : nat) : F := inner + (((outer - inner) / fnat nz) * fnat i).

  Definition layer_nodes (inner outer : F) (nz : nat) (shell : list spt) (i : nat) : list (spt * F) :=
    map (fun p => let q := sg_project (layer_radius inner outer nz i) p in (q, sg_snap (outer - sg_norm q))) shell.

  Definition sphere_nodes (level nz : nat) (inner outer : F) : list (spt * F) :=
    let all := all_nodes level in
    let ds := dups (fdec 1 (-12) * outer) all in
    let shell := kept_points all ds in
    flat_map (layer_nodes inner outer nz shell) (seq 0 (nz + 1)).

  Definition layer_cells (snp : nat) (sc : list (list nat)) (i : nat) : list (list nat) :=
    map (fun c => map (fun v => (v + i * snp)%nat) c ++ map (fun v => (v + (i + 1) * snp)%nat) c) sc.

  Definition sphere_cells_of (level nz : nat) (ds : list (option nat)) : list (list nat) :=
    flat_map (layer_cells (n_kept ds) (shell_cells level ds)) (seq 0 nz).

  Definition sphere_dups (level : nat) (outer : F) : list (option nat) := dups (fdec 1 (-12) * outer) (all_nodes level).

  Definition sphere_cells (level nz : nat) (outer : F) : list (list nat) := sphere_cells_of level nz (sphere_dups level outer).
End SphereGrid.
