(** * CallbackProofs: models that call back World::properties for the temperature; bounds of the water content *)
From Coq Require Import List Arith NArith Bool Lia Reals Lra.
From WB Require Import Num Base Props World WorldProofs WorldProofs2 Kernels Features FeaturesProofs Plume SlabFeature SlabFeatureProofs Tian RNum.
Import ListNotations.

Section Callback.
  Context {F : Type} {NF : Num F}.
  Notation world := (@world F).
  Notation feature := (@feature F).

  (** painting a temperature does not read the world temperature *)
  Definition temp_ignores_wtemp (f : feature) : Prop :=
    forall q wt wt' t blk, ft_paint f q wt PTemp t blk = ft_paint f q wt' PTemp t blk /\
                           ft_paint_err f q wt PTemp = ft_paint_err f q wt' PTemp.

  Lemma paint_slot_temp f q wt wt' st off : temp_ignores_wtemp f ->
    paint_slot f q wt st (PTemp, off) = paint_slot f q wt' st (PTemp, off).
  Proof. intros H. unfold paint_slot. destruct st as [out t]. destruct (H q wt wt' t (slice off (width PTemp) out)) as [-> _]. reflexivity. Qed.

  Lemma fold_temp_regs f q wt wt' regs : temp_ignores_wtemp f -> Forall (fun pe => fst pe = PTemp) regs -> forall st,
    fold_left (paint_slot f q wt) regs st = fold_left (paint_slot f q wt') regs st.
  Proof.
    intros H R. induction R as [|[p off] r Hp Hr IH]; intros st; [reflexivity|]. cbn [fold_left]. cbn [fst] in Hp. subst p.
    rewrite (paint_slot_temp f q wt wt' st off H). apply IH.
  Qed.

  Lemma features_temp fs q wt wt' regs : Forall temp_ignores_wtemp fs -> Forall (fun pe => fst pe = PTemp) regs -> forall st,
    fold_left (feature_apply q wt regs) fs st = fold_left (feature_apply q wt' regs) fs st.
  Proof.
    intros H R. induction H as [|f fs Hf Hfs IH]; intros st; [reflexivity|]. cbn [fold_left].
    unfold feature_apply at 2 4. destruct (ft_covers f q); [|apply IH].
    rewrite (fold_temp_regs f q wt wt' regs Hf R). apply IH.
  Qed.

  Lemma regs_temp (w : world) g d : Forall (fun pe => fst pe = PTemp) (snd (init_from w g d [PTemp] [])).
  Proof. cbn [init_from]. destruct (registered w d PTemp); cbn [snd]; repeat constructor. Qed.

  Lemma err_temp fs q wt wt' regs : Forall temp_ignores_wtemp fs -> Forall (fun pe : prop_req * nat => fst pe = PTemp) regs ->
    existsb (fun f => ft_cov_err f q || (ft_covers f q && existsb (fun pe => ft_paint_err f q wt (fst pe)) regs)) fs =
    existsb (fun f => ft_cov_err f q || (ft_covers f q && existsb (fun pe => ft_paint_err f q wt' (fst pe)) regs)) fs.
  Proof.
    intros H R. induction H as [|f fs Hf Hfs IH]; [reflexivity|]. cbn [existsb]. rewrite IH. f_equal. f_equal. f_equal.
    clear IH. induction R as [|[p off] r Hp Hr IHr]; [reflexivity|]. cbn [existsb fst] in *. subst p.
    destruct (Hf q wt wt' 0 []) as [_ ->]. rewrite IHr. reflexivity.
  Qed.

  (** a temperature request is answered without reading the world temperature *)
  Lemma temperature_request_ignores_wtemp (w : world) q wt wt' t :
    Forall temp_ignores_wtemp (w_features w) ->
    properties_at w q wt [PTemp] t = properties_at w q wt' [PTemp] t.
  Proof.
    intros H. unfold properties_at. pose proof (regs_temp w (q_g q) (q_depth q)) as R.
    destruct (init_from w (q_g q) (q_depth q) [PTemp] []) as [out0 regs]. cbn [snd] in R.
    rewrite (err_temp _ q wt wt' regs H R). rewrite (features_temp _ q wt wt' regs H R). reflexivity.
  Qed.

  (** what a model that calls back world->properties(position, depth, {temperature}) receives is what the public
      temperature query returns at that point *)
  Theorem callback_is_public_temperature (w : world) pos depth :
    Forall temp_ignores_wtemp (w_features w) ->
    world_temperature w (mk_query w pos depth) = rmap fst (temperature3d w pos depth 0).
  Proof.
    intros H. unfold world_temperature, temperature3d, properties3d.
    rewrite (temperature_request_ignores_wtemp w (mk_query w pos depth) no_wtemp (fun _ => world_temperature w (mk_query w pos depth)) 0 H).
    destruct (properties_at w _ _ [PTemp] 0) as [[r t']|e]; reflexivity.
  Qed.

  (** the features of the model meet the premise *)
  Lemma area_temp_ignores g tape sph a : temp_ignores_wtemp (area_to_feature g tape sph a).
  Proof. intros q wt wt' t blk. split; reflexivity. Qed.
  Lemma plume_temp_ignores g tape sph pl : temp_ignores_wtemp (plume_to_feature g tape sph pl).
  Proof. intros q wt wt' t blk. split; reflexivity. Qed.
  Lemma line_temp_ignores g tape lf : temp_ignores_wtemp (line_to_feature g tape lf).
  Proof. intros q wt wt' t blk. split; reflexivity. Qed.
End Callback.

(** ** the water content stays between 0 and the initial water content *)
Section TianBounds.
  Variable sp : special.
  Local Existing Instance Rnum.
  Let N := Rnum sp.
  Local Open Scope R_scope.
  Theorem tian_value_bounds l density maxw cutoff depth T : 0 <= maxw ->
    0 <= @tian_value R N l density maxw cutoff depth T <= maxw / 100.
  Proof.
    intros Hm. unfold tian_value, fmin.
    change (@fdiv R N) with Rdiv. change (@fofZ R N 100) with 100. change (@flt R N) with Rltb.
    set (x := @tian_partition R N l (@tian_pressure R N density depth cutoff) T).
    assert (Hx : 0 < x).
    { unfold x, tian_partition. change (@fmul R N) with Rmult. change (@fexp R N) with exp.
      apply Rmult_lt_0_compat; apply exp_pos. }
    destruct (Rltb_spec x maxw); split; try lra.
  Qed.
End TianBounds.
