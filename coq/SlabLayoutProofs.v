(** * SlabLayoutProofs: the re-layouts of property C10 build the same segment table; an override is local. *)
From Coq Require Import List Arith Bool Lia.
From WB Require Import SlabLayout.
Import ListNotations.

Section LP.
  Variables K M G : Type.
  Notation layout := (layout K M G).
  Notation section_entry := (section_entry K M G).

  (** models are compared as functions of the kind: extensional equality *)
  Definition req (a b : G * (K -> option M)) : Prop := fst a = fst b /\ forall k, snd a k = snd b k.
  Definition table_eq (t1 t2 : list (list (G * (K -> option M)))) : Prop := Forall2 (Forall2 req) t1 t2.

  Lemma req_refl a : req a a. Proof. split; auto. Qed.
  Lemma Forall2_req_refl l : Forall2 req l l.
  Proof. induction l; constructor; auto using req_refl. Qed.

  Lemma inherit_idem (inner outer : K -> option M) k : inherit (inherit inner outer) outer k = inherit inner outer k.
  Proof. unfold inherit. destruct (inner k); [reflexivity|]. destruct (outer k); reflexivity. Qed.

  Lemma resolve_explicit outer (s : segment K M G) : req (resolve outer (explicit_segment outer s)) (resolve outer s).
  Proof. split; [reflexivity|]. intros k. cbn. apply inherit_idem. Qed.

  Lemma map_resolve_explicit outer (l : list (segment K M G)) :
    Forall2 req (map (resolve outer) (map (explicit_segment outer) l)) (map (resolve outer) l).
  Proof. induction l as [|s l IH]; cbn; constructor; [apply resolve_explicit | exact IH]. Qed.

  (** find_entry on mapped entries *)
  Lemma find_entry_explicit (L : layout) : forall es i acc,
    find_entry (map (explicit_entry L) es) i (option_map (explicit_entry L) acc) =
    option_map (explicit_entry L) (find_entry es i acc).
  Proof.
    induction es as [|e r IH]; intros i acc; cbn; [reflexivity|].
    replace (if Nat.eqb (se_coord e) i then Some (explicit_entry L e) else option_map (explicit_entry L) acc)
      with (option_map (explicit_entry L) (if Nat.eqb (se_coord e) i then Some e else acc)) by (destruct (Nat.eqb (se_coord e) i); reflexivity).
    apply IH.
  Qed.

  Theorem explicit_models_section (L : layout) i : Forall2 req (section_of (explicit_models L) i) (section_of L i).
  Proof.
    unfold section_of. cbn [ly_sections ly_models ly_default explicit_models].
    pose proof (find_entry_explicit L (ly_sections L) i None) as H. cbn [option_map] in H. rewrite H.
    destruct (find_entry (ly_sections L) i None) as [e|]; cbn [option_map].
    - cbn [se_segments se_models explicit_entry]. apply map_resolve_explicit.
    - apply map_resolve_explicit.
  Qed.

  Lemma Forall2_map_seq (f g : nat -> list (G * (K -> option M))) l :
    (forall i, Forall2 req (f i) (g i)) -> Forall2 (Forall2 req) (map f l) (map g l).
  Proof. intros H. induction l; cbn; constructor; auto. Qed.

  Theorem explicit_models_table (L : layout) : table_eq (table (explicit_models L)) (table L).
  Proof. unfold table_eq, table. cbn [ly_n explicit_models]. apply Forall2_map_seq. apply explicit_models_section. Qed.

  (** ** repeating the default segments as section entries *)
  Lemma find_entry_app : forall (es1 es2 : list section_entry) i acc,
    find_entry (es1 ++ es2) i acc = find_entry es2 i (find_entry es1 i acc).
  Proof. induction es1 as [|e r IH]; intros es2 i acc; cbn; [reflexivity | apply IH]. Qed.

  Lemma find_entry_none_coord : forall (es : list section_entry) i acc,
    (forall e, In e es -> se_coord e <> i) -> find_entry es i acc = acc.
  Proof.
    induction es as [|e r IH]; intros i acc H; cbn; [reflexivity|].
    destruct (Nat.eqb_spec (se_coord e) i) as [E|E]; [exfalso; apply (H e); [left; reflexivity | exact E]|].
    apply IH. intros e' He'. apply H. right. exact He'.
  Qed.

  (** an added entry for coordinate i exists only if i had none; it carries the default segments and no models *)
  Lemma find_added (L : layout) i acc :
    (exists e, find_entry (added_entries L) i acc = Some e /\ se_segments e = ly_default L /\ (forall k, se_models e k = None) /\ has_entry L i = false)
    \/ find_entry (added_entries L) i acc = acc.
  Proof.
    unfold added_entries.
    generalize (seq 0 (ly_n L)) as l. intros l. revert acc.
    induction l as [|j l IH]; intros acc; cbn; [right; reflexivity|].
    destruct (has_entry L j) eqn:Hj; cbn [negb]; [apply IH|].
    cbn [map find_entry se_coord].
    destruct (Nat.eqb_spec j i) as [E|E].
    - subst j.
      destruct (IH (Some {| se_coord := i; se_segments := ly_default L; se_models := fun _ => None |})) as [H|H].
      + left. exact H.
      + left. eexists. split; [exact H|]. cbn. auto.
    - apply IH.
  Qed.

  Lemma inherit_none (outer : K -> option M) k : inherit (fun _ => None) outer k = outer k.
  Proof. reflexivity. Qed.

  Lemma map_resolve_ext (o1 o2 : K -> option M) (l : list (segment K M G)) :
    (forall k, o1 k = o2 k) -> Forall2 req (map (resolve o1) l) (map (resolve o2) l).
  Proof.
    intros H. induction l as [|s l IH]; cbn; constructor; [|exact IH].
    split; [reflexivity|]. intros k. cbn. unfold inherit. destruct (sg_models s k); [reflexivity | apply H].
  Qed.

  Theorem explicit_sections_section (L : layout) i : Forall2 req (section_of (explicit_sections L) i) (section_of L i).
  Proof.
    unfold section_of. cbn [ly_sections ly_models ly_default explicit_sections].
    rewrite find_entry_app.
    destruct (find_added L i (find_entry (ly_sections L) i None)) as [[e [He [Hs [Hm Hh]]]]|He]; rewrite He.
    - unfold has_entry in Hh. destruct (find_entry (ly_sections L) i None); [discriminate|].
      rewrite Hs. apply map_resolve_ext. intros k. unfold inherit. rewrite Hm. reflexivity.
    - destruct (find_entry (ly_sections L) i None); apply Forall2_req_refl.
  Qed.

  Theorem explicit_sections_table (L : layout) : table_eq (table (explicit_sections L)) (table L).
  Proof. unfold table_eq, table. cbn [ly_n explicit_sections]. apply Forall2_map_seq. apply explicit_sections_section. Qed.

  (** ** an override is local: only the section of the overridden coordinate changes *)
  Theorem override_other (L : layout) (e : section_entry) j : se_coord e <> j ->
    section_of (override L e) j = section_of L j.
  Proof.
    intros H. unfold section_of. cbn [ly_sections ly_models ly_default override].
    rewrite find_entry_app. cbn [find_entry].
    destruct (Nat.eqb_spec (se_coord e) j) as [E|E]; [contradiction | reflexivity].
  Qed.

  Theorem override_self (L : layout) (e : section_entry) :
    section_of (override L e) (se_coord e) = map (resolve (inherit (se_models e) (ly_models L))) (se_segments e).
  Proof.
    unfold section_of. cbn [ly_sections ly_models ly_default override].
    rewrite find_entry_app. cbn [find_entry]. rewrite Nat.eqb_refl. reflexivity.
  Qed.

  (** whatever is computed from the sections of the two coordinates next to the foot (interval k: the
      sections k and k+1) is unchanged by an override of any other coordinate *)
  Theorem evaluation_local (A : Type) (eval : list (G * (K -> option M)) -> list (G * (K -> option M)) -> A)
          (L : layout) (e : section_entry) k :
    se_coord e <> k -> se_coord e <> S k ->
    eval (section_of (override L e) k) (section_of (override L e) (S k)) = eval (section_of L k) (section_of L (S k)).
  Proof. intros H1 H2. rewrite !override_other by assumption. reflexivity. Qed.
End LP.
