(** * SlabFeature: subducting plates and faults as features of the world model (Cartesian worlds;
    subducting_plate.cc:490-820, fault.cc twin, and the uniform / linear / adiabatic temperature,
    uniform / smooth composition and uniform raw velocity models of both).

    The acceleration shortcuts of the implementation (surface bounding box, depth cut-off from the
    total length) are *not* part of the model: the correspondence check runs the implementation with the
    GWB_VERIF hook that switches them off, and property C07 (culling on = culling off) is checked
    separately.  Grains are not modelled for these features (quaternion interpolation between sections,
    known finding D4) are modelled with the quaternion routines of Quat.v. *)
From Coq Require Import ZArith NArith List Bool.
From WB Require Import Tian Num Base Props World Kernels Features Bezier BezierSph SlabLayout SlabModel Quat SlabMass.
Import ListNotations.

Section SlabFeature.
  Context {F : Type} {NF : Num F}.
  Local Open Scope num_scope.
  Local Notation pt2 := (@pt2 F).

  Inductive stemp :=
  | STUniform (mn mx : F) (o : op) (T : F)
  | STLinear (mn mx : F) (o : op) (t0 t1 : F)         (* slab: top / bottom; fault: center / side temperature *)
  | STAdiabatic (mn mx : F) (o : op) (Tp alpha cp : F)   (* sentinels resolved at parse time *)
  | STPlate (mn mx : F) (o : op) (density vel k alpha cp : F) (adiabatic_heating : bool) (Tp : F)   (* slab only: McKenzie (1970) *)
  | STMass (m : @mass_model F).                                                                     (* slab only: mass conserving *)

  (** the 500-term series of the slab plate model *)
  Fixpoint mckenzie_sum (n : nat) (i : Z) (Rn x_scaled z_scaled acc : F) : F :=
    match n with
    | O => acc
    | S n' =>
        let fi := fofZ i in
        let sgn := if Z.even i then f1 else - f1 in
        let A := sgn / (fi * fpi) in
        let B := fexp ((Rn - fpow ((Rn * Rn) + ((fofZ (i * i)%Z * fpi) * fpi)) fhalf) * x_scaled) in
        let C := fsin ((fi * fpi) * z_scaled) in
        mckenzie_sum n' (i + 1)%Z Rn x_scaled z_scaled (acc + ((A * B) * C))
    end.

  Inductive scomp :=
  | SCUniform (mn mx : F) (o : op) (comps : list N) (fracs : list F)
  | SCSmooth (mn mx side : F) (o : op) (comps : list N) (a b : list F)
  | SCTian (mn mx : F) (o : op) (comps : list N) (lith : lithology) (density maxw cutoff : F).   (* slab only: tian water content *)
    (* slab: min, max, side = |max - min|, top fractions, bottom fractions;
       fault: min (unused), max (unused), side distance, center fractions, side fractions *)

  Inductive svel := SVUniformRaw (mn mx : F) (o : op) (v : F * F * F).

  (** grains models: the area-feature models (Features.v) with the depth range replaced by a distance range *)
  Inductive sgrains :=
  | SGUniform (mn mx : F) (comps : list N) (mats : list (list F)) (sizes : list F)
  | SGRandom (mn mx : F) (comps : list N) (sizes : list F) (normalize : list bool) (defl : option (list F * list (list F))).

  Definition in_dist (mn mx x : F) : bool := (x <=? mx) && (mn <=? x).

  Definition stemp_eval (g : @globals F) (fault sph : bool) (q : @query F) (pd : @plane_distances F) (local_thickness total : F) (m : stemp) (old : F) : F :=
    let d := pd_distance pd in
    let dd := if fault then fabs d else d in
    match m with
    | STUniform mn mx o T => if in_dist mn mx dd then apply_op o old T else old
    | STLinear mn mx o t0 t1 =>
        if in_dist mn mx dd then
          let t0l := if t0 <? f0 then g_Tp g * fexp (((g_alpha g * q_g q) / g_cp g) * mn) else t0 in
          let t1l := if t1 <? f0 then g_Tp g * fexp (((g_alpha g * q_g q) / g_cp g) * mx) else t1 in
          apply_op o old (t0l + ((dd - mn) * ((t1l - t0l) / (mx - mn))))
        else old
    | STAdiabatic mn mx o Tp alpha cp =>
        (* the fault copy compares the *depth* with the distance range *)
        let x := if fault then q_depth q else d in
        if in_dist mn mx x then apply_op o old (Tp * fexp (((alpha * q_g q) / cp) * q_depth q)) else old
    | STPlate mn mx o density vel k alpha cp adiab Tp =>
        if in_dist mn mx d then
          let th := fmin local_thickness mx in
          let Rn := (((density * cp) * (vel / fofZ 31557600)) * th) / (f2 * k) in
          let two_eps := f2 * feps in
          let z_scaled := f1 - (if fabs d <? two_eps then two_eps else d / th) in
          let x_scaled := if fabs (pd_along pd) <? two_eps then two_eps else pd_along pd / th in
          let temp := if adiab then fexp (((alpha * q_g q) * q_depth q) / cp) else f1 in
          let sum := mckenzie_sum 500 1%Z Rn x_scaled z_scaled f0 in
          apply_op o old (temp * (Tp + ((f2 * (Tp - fdec 27315 (-2))) * sum)))
        else old
    | STMass mm => mass_temperature sph (q_g q) (q_depth q) mm pd total old
    end.

  Definition stemp_throws (sph : bool) (pd : @plane_distances F) (m : stemp) : bool :=
    match m with STMass mm => mass_throws sph mm pd | _ => false end.

  Fixpoint find3 (comps : list N) (a b : list F) (c : N) : option (F * F) :=
    match comps, a, b with
    | c' :: cr, x :: ar, y :: br => if N.eqb c' c then Some (x, y) else find3 cr ar br c
    | _, _, _ => None
    end.

  Definition scomp_eval (fault : bool) (q : @query F) (wt : @wtemp F) (pd : @plane_distances F) (m : scomp) (c : N) (old : F) : F :=
    let d := pd_distance pd in
    match m with
    | SCTian mn mx o comps lith density maxw cutoff =>
        (* the range is in distance from the slab top, the pressure comes from the depth, the temperature from the whole world *)
        if in_dist mn mx d then
          match wt tt with
          | Ok T =>
              if existsb (N.eqb c) comps then apply_op o old (tian_value lith density maxw cutoff (q_depth q) T)
              else match o with OReplace => f0 | _ => old end
          | Err _ => old
          end
        else old
    | SCUniform mn mx o comps fracs =>
        let dd := if fault then fabs d else d in
        if in_dist mn mx dd then
          match find_comp comps fracs c with
          | Some f => apply_op o old f
          | None => match o with OReplace => f0 | _ => old end
          end
        else old
    | SCSmooth mn mx side o comps a b =>
        let ten := fofZ 10 in
        if fault then
          match find3 comps a b c with
          | Some (ce, si) =>
              apply_op o old (((ce - si) * (f1 - ftanh ((ten * (d - (side / f2))) / side))) / f2)
          | None => match o with OReplace => f0 | _ => old end
          end
        else if in_dist mn mx d then
          match find3 comps a b c with
          | Some (top, bot) =>
              let scaling := (f1 - ftanh ((ten * ((d - (side / f2)) - mn)) / side)) / f2 in
              apply_op o old ((top * scaling) + (bot * (f1 - scaling)))
          | None => match o with OReplace => f0 | _ => old end
          end
        else old
    end.

  (** a composition request throws when the nested temperature query of a water content model in range throws *)
  Definition scomp_throws (wt : @wtemp F) (pd : @plane_distances F) (m : scomp) : bool :=
    match m with
    | SCTian mn mx _ _ _ _ _ _ => in_dist mn mx (pd_distance pd) && match wt tt with Ok _ => false | Err _ => true end
    | _ => false
    end.

  Definition svel_eval (fault : bool) (pd : @plane_distances F) (m : svel) (old : F * F * F) : F * F * F :=
    match m with
    | SVUniformRaw mn mx o v =>
        let d := pd_distance pd in
        let dd := if fault then fabs d else d in
        if in_dist mn mx dd then
          let '(o0, o1, o2) := old in let '(v0, v1, v2) := v in
          (apply_op o o0 v0, apply_op o o1 v1, apply_op o o2 v2)
        else old
    end.

  (** a depth surface that contains every depth: the area-feature evaluator is reused for its body *)
  Definition everywhere_lo : @dsurf F := {| ds_const := true; ds_min := - fdmax; ds_max := - fdmax; ds_tris := []; ds_nodes := [] |}.
  Definition everywhere_hi : @dsurf F := {| ds_const := true; ds_min := fdmax; ds_max := fdmax; ds_tris := []; ds_nodes := [] |}.

  Definition sgrains_eval (tape : nat -> F) (fault sph : bool) (q : @query F) (pd : @plane_distances F) (m : sgrains)
             (c k : N) (st : list F * nat) : list F * nat :=
    let d := pd_distance pd in
    let dd := if fault then fabs d else d in
    match m with
    | SGUniform mn mx comps mats sizes =>
        if in_dist mn mx dd then grains_eval tape sph q (GUniform everywhere_lo everywhere_hi comps mats sizes) c k st else st
    | SGRandom mn mx comps sizes normalize defl =>
        if in_dist mn mx dd then grains_eval tape sph q (GRandom everywhere_lo everywhere_hi comps sizes normalize defl) c k st else st
    end.

  (** one resolved segment of one coordinate *)
  Record lseg := {
    ls_top : F; ls_bot : F; ls_len : F;          (* dips in radians, length *)
    ls_th0 : F; ls_th1 : F; ls_tr0 : F; ls_tr1 : F;
    ls_temp : list stemp; ls_comp : list scomp; ls_vel : list svel; ls_grains : list sgrains
  }.

  Record line_feature := {
    lf_fault : bool; lf_sph : bool; lf_dm : @depth_method; lf_coords : list pt2; lf_dip : pt2; lf_min : F; lf_max : F;
    lf_table : list (list lseg);                 (* per trench coordinate *)
    lf_tag : F
  }.

  Definition lseg_default : lseg :=
    {| ls_top := f0; ls_bot := f0; ls_len := f0; ls_th0 := f0; ls_th1 := f0; ls_tr0 := f0; ls_tr1 := f0;
       ls_temp := []; ls_comp := []; ls_vel := []; ls_grains := [] |}.

  Definition lf_geom (lf : line_feature) : list (list (F * F * F)) :=
    map (map (fun s => (ls_top s, ls_bot s, ls_len s))) (lf_table lf).
  Definition total_length (row : list lseg) : F := fold_left (fun acc s => acc + ls_len s) row f0.

  Definition lf_distances (lf : line_feature) (q : @query F) : @plane_distances F :=
    let '(n0, _, z) := q_nat q in
    (* the depth coordinate: z in Cartesian, the radius in spherical worlds *)
    let sr := ((if lf_sph lf then fst (fst (q_nat q)) else z) + q_depth q) - lf_min lf in
    let pd := if lf_sph lf
              then distance_point_from_curved_planes_sph (lf_dm lf) closest_point_spherical (q_pos q) (lf_dip lf) (lf_coords lf)
                                                         (lf_geom lf) sr (bezier_build (lf_coords lf))
              else distance_point_from_curved_planes (q_pos q) (lf_dip lf) (lf_coords lf) (lf_geom lf) sr (bezier_build (lf_coords lf)) in
    (* Fault::properties asks for positive distances only *)
    if lf_fault lf then
      {| pd_distance := fabs (pd_distance pd); pd_along := pd_along pd; pd_section_fraction := pd_section_fraction pd;
         pd_segment_fraction := pd_segment_fraction pd; pd_section := pd_section pd; pd_segment := pd_segment pd;
         pd_average_angle := pd_average_angle pd; pd_depth_reference := pd_depth_reference pd; pd_trench := pd_trench pd |}
    else pd.

  (** the local quantities of the membership test: (thickness, top truncation, total length, current, next segment) *)
  Definition lf_local (lf : line_feature) (pd : @plane_distances F) : F * F * F * lseg * lseg :=
    let cur := nth (pd_segment pd) (nth (pd_section pd) (lf_table lf) []) lseg_default in
    let nxt := nth (pd_segment pd) (nth (S (pd_section pd)) (lf_table lf) []) lseg_default in
    let sf := pd_section_fraction pd in
    let gf := pd_segment_fraction pd in
    let th_up := section_interp (ls_th0 cur) (ls_th0 nxt) sf in
    let th_dn := section_interp (ls_th1 cur) (ls_th1 nxt) sf in
    let th := section_interp th_up th_dn gf in
    let tr_up := section_interp (ls_tr0 cur) (ls_tr0 nxt) sf in
    let tr_dn := section_interp (ls_tr1 cur) (ls_tr1 nxt) sf in
    let tr := section_interp tr_up tr_dn gf in
    let tot := section_interp (total_length (nth (pd_section pd) (lf_table lf) []))
                              (total_length (nth (S (pd_section pd)) (lf_table lf) [])) sf in
    (th, tr, tot, cur, nxt).

  Definition lf_covers (lf : line_feature) (q : @query F) : bool :=
    let d := q_depth q in
    if (d <=? lf_max lf) && (lf_min lf <=? d) then
      let pd := lf_distances lf q in
      if (fabs (pd_distance pd) <? finf) || (pd_along pd <? finf) then
        let '(th, tr, tot, _, _) := lf_local lf pd in
        if fabs th <? (f2 * feps) then false
        else if th <? tr then false
        else if lf_fault lf then
          (fabs (pd_distance pd) <=? (th * fhalf)) && (f0 <? pd_along pd) && (pd_along pd <=? tot)
        else
          (tr <=? pd_distance pd) && (pd_distance pd <=? th) && (f0 <=? pd_along pd) && (pd_along pd <=? tot)
      else false
    else false.

  (** painting one property block (only called when [lf_covers]) *)
  Definition lf_paint (g : @globals F) (tape : nat -> F) (lf : line_feature) (q : @query F) (wt : @wtemp F) (p : prop_req) (t : nat) (blk : list F) : list F * nat :=
    let pd := lf_distances lf q in
    let '(th, _, tot, cur, nxt) := lf_local lf pd in
    let sf := pd_section_fraction pd in
    let fault := lf_fault lf in
    match p with
    | PTemp =>
        let old := nth 0 blk f0 in
        let a := fold_left (fun o m => stemp_eval g fault (lf_sph lf) q pd th tot m o) (ls_temp cur) old in
        let b := fold_left (fun o m => stemp_eval g fault (lf_sph lf) q pd th tot m o) (ls_temp nxt) old in
        ([section_interp a b sf], t)
    | PComp c =>
        let old := nth 0 blk f0 in
        let a := fold_left (fun o m => scomp_eval fault q wt pd m c o) (ls_comp cur) old in
        let b := fold_left (fun o m => scomp_eval fault q wt pd m c o) (ls_comp nxt) old in
        ([section_interp a b sf], t)
    | PGrains c k =>
        (* both sections start from the values painted so far; the draws of the current section come first *)
        let kk := N.to_nat k in
        let '(bc, t1) := fold_left (fun st m => sgrains_eval tape fault (lf_sph lf) q pd m c k st) (ls_grains cur) (blk, t) in
        let '(bn, t2) := fold_left (fun st m => sgrains_eval tape fault (lf_sph lf) q pd m c k st) (ls_grains nxt) (blk, t1) in
        let sizes := map (fun i => section_interp (nth i bc f0) (nth i bn f0) sf) (seq 0 kk) in
        let mats := map (fun i => average_rotation (slice (kk + 9 * i) 9 bc) (slice (kk + 9 * i) 9 bn) sf) (seq 0 kk) in
        (sizes ++ concat mats, t2)
    | PTag => ([lf_tag lf], t)
    | PVel =>
        (* subducting_plate.cc:754 / fault.cc:721: the third start value is output[entry] + 2 (known finding D3) *)
        let old := (nth 0 blk f0, nth 1 blk f0, nth 0 blk f0 + f2) in
        let '(a0, a1, a2) := fold_left (fun o m => svel_eval fault pd m o) (ls_vel cur) old in
        let '(b0, b1, b2) := fold_left (fun o m => svel_eval fault pd m o) (ls_vel nxt) old in
        ([section_interp a0 b0 sf; section_interp a1 b1 sf; section_interp a2 b2 sf], t)
    end.

  (** requests the model does not cover for these features *)
  (** a temperature request throws when a mass conserving model of the two sections rejects the plate ages *)
  Definition lf_paint_err (lf : line_feature) (q : @query F) (wt : @wtemp F) (p : prop_req) : bool :=
    match p with
    | PTemp =>
        let pd := lf_distances lf q in
        let '(_, _, _, cur, nxt) := lf_local lf pd in
        existsb (stemp_throws (lf_sph lf) pd) (ls_temp cur) || existsb (stemp_throws (lf_sph lf) pd) (ls_temp nxt)
    | PComp _ =>
        let pd := lf_distances lf q in
        let '(_, _, _, cur, nxt) := lf_local lf pd in
        existsb (scomp_throws wt pd) (ls_comp cur) || existsb (scomp_throws wt pd) (ls_comp nxt)
    | _ => false
    end.

  Definition line_to_feature (g : @globals F) (tape : nat -> F) (lf : line_feature) : @feature F :=
    {| ft_covers := lf_covers lf;
       ft_cov_err := fun _ => false;
       ft_paint_err := lf_paint_err lf;
       ft_paint := lf_paint g tape lf;
       ft_tag := lf_tag lf |}.

  (** ** from the layout of the parameter file (SlabLayout.v) to the per-coordinate table *)
  Inductive mkind := KTemp | KComp | KGrains | KVel.
  Inductive mlist_ := MTemp (l : list stemp) | MComp (l : list scomp) | MGrains (l : list sgrains) | MVel (l : list svel).
  Record sgeom := { sg_top : F; sg_bot : F; sg_len : F; sg_th0 : F; sg_th1 : F; sg_tr0 : F; sg_tr1 : F }.

  Definition lseg_of (r : sgeom * (mkind -> option mlist_)) : lseg :=
    let '(gm, ms) := r in
    {| ls_top := sg_top gm; ls_bot := sg_bot gm; ls_len := sg_len gm;
       ls_th0 := sg_th0 gm; ls_th1 := sg_th1 gm; ls_tr0 := sg_tr0 gm; ls_tr1 := sg_tr1 gm;
       ls_temp := match ms KTemp with Some (MTemp l) => l | _ => [] end;
       ls_comp := match ms KComp with Some (MComp l) => l | _ => [] end;
       ls_vel := match ms KVel with Some (MVel l) => l | _ => [] end;
       ls_grains := match ms KGrains with Some (MGrains l) => l | _ => [] end |}.

  Definition table_of_layout (L : layout mkind mlist_ sgeom) : list (list lseg) := map (map lseg_of) (table L).

  Definition line_of_layout_gen (fault sph : bool) (dm : @depth_method) (coords : list pt2) (dip : pt2) (mn mx : F)
             (L : layout mkind mlist_ sgeom) (tag : F) : line_feature :=
    {| lf_fault := fault; lf_sph := sph; lf_dm := dm; lf_coords := coords; lf_dip := dip; lf_min := mn; lf_max := mx;
       lf_table := table_of_layout L; lf_tag := tag |}.

  Definition line_of_layout (fault : bool) (coords : list pt2) (dip : pt2) (mn mx : F)
             (L : layout mkind mlist_ sgeom) (tag : F) : line_feature :=
    {| lf_fault := fault; lf_sph := false; lf_dm := DMNone; lf_coords := coords; lf_dip := dip; lf_min := mn; lf_max := mx;
       lf_table := table_of_layout L; lf_tag := tag |}.
End SlabFeature.
