From Coq Require Import List Arith Bool Lia NArith.
From WB Require Import Num Base Props Kernels Features Validate.
Import ListNotations.

Section VP.
  Context {F : Type} {NF : Num F}.

  Lemma find_idx_range (comps : list N) c : forall k i, find_idx comps c k = Some i -> (k <= i < k + length comps)%nat.
  Proof.
    induction comps as [|c' r IH]; intros k i H; cbn [find_idx] in H; [discriminate|].
    destruct (N.eqb c' c).
    - injection H as <-. cbn [length]. lia.
    - apply IH in H. cbn [length]. lia.
  Qed.

  (** uniform grains: once the lengths agree the sizes / matrices of the matching composition are read inside their tables *)
  Theorem grains_uniform_reads_in_bounds (comps : list N) (mats : list (list F)) (sizes : list F) c i :
    sig_ok (SigGrainsUniform (length comps) (length mats) (length sizes)) = true ->
    find_idx comps c 0 = Some i -> (i < length sizes)%nat /\ (i < length mats)%nat.
  Proof.
    cbn [sig_ok]. intros H Hf. apply andb_prop in H. destruct H as [H1 H2].
    apply Nat.eqb_eq in H1. apply Nat.eqb_eq in H2. apply find_idx_range in Hf. lia.
  Qed.

  Theorem grains_random_reads_in_bounds (comps : list N) (sizes : list F) (normalize : list bool) c i :
    sig_ok (SigGrainsRandom (length comps) (length sizes) (length normalize)) = true ->
    find_idx comps c 0 = Some i -> (i < length sizes)%nat /\ (i < length normalize)%nat.
  Proof.
    cbn [sig_ok]. intros H Hf. apply andb_prop in H. destruct H as [H1 H2].
    apply Nat.eqb_eq in H1. apply Nat.eqb_eq in H2. apply find_idx_range in Hf. lia.
  Qed.

  Theorem grains_deflected_reads_in_bounds (comps : list N) (sizes : list F) (normalize : list bool) (defl : list F) (basis : list (list F)) c i :
    sig_ok (SigGrainsDeflected (length comps) (length sizes) (length normalize) (length defl) (length basis)) = true ->
    find_idx comps c 0 = Some i ->
    (i < length sizes)%nat /\ (i < length normalize)%nat /\ (i < length defl)%nat /\ (i < length basis)%nat.
  Proof.
    cbn [sig_ok]. intros H Hf. repeat (apply andb_prop in H; destruct H as [H ?]).
    repeat match goal with E : (_ =? _)%nat = true |- _ => apply Nat.eqb_eq in E end. apply find_idx_range in Hf. lia.
  Qed.

  (** smooth composition (slab, fault): the composition found at position i reads entry i of both fraction lists *)
  Theorem smooth_reads_in_bounds (comps : list N) (first second : list F) c i :
    sig_ok (SigSmooth (length comps) (length first) (length second)) = true ->
    find_idx comps c 0 = Some i -> (i < length first)%nat /\ (i < length second)%nat.
  Proof.
    cbn [sig_ok]. intros H Hf. apply andb_prop in H. destruct H as [H1 H2].
    apply Nat.eqb_eq in H1. apply Nat.eqb_eq in H2. apply find_idx_range in Hf. lia.
  Qed.

  (** uniform composition: the model walks compositions and fractions together; with equal lengths that is "find the
      position of the composition, read the fraction at that position" - the shorter list never cuts the search short *)
  Theorem fractions_lookup (comps : list N) (fracs : list F) c :
    sig_ok (SigFractions (length comps) (length fracs)) = true ->
    find_comp comps fracs c = match find_idx comps c 0 with Some i => nth_error fracs i | None => None end /\
    (forall i, find_idx comps c 0 = Some i -> (i < length fracs)%nat).
  Proof.
    cbn [sig_ok]. intros H. apply Nat.eqb_eq in H. split.
    - assert (G : forall k, find_comp comps fracs c =
                       match find_idx comps c k with Some i => nth_error fracs (i - k) | None => None end).
      { revert fracs H. induction comps as [|c' r IH]; intros fracs H k.
        - reflexivity.
        - destruct fracs as [|f fr]; [discriminate|]. cbn [find_comp find_idx]. destruct (N.eqb c' c).
          + replace (k - k)%nat with 0%nat by lia. reflexivity.
          + cbn [length] in H. injection H as H. rewrite (IH fr H (S k)).
            destruct (find_idx r c (S k)) as [i|] eqn:E; [|reflexivity].
            apply find_idx_range in E. replace (i - k)%nat with (S (i - S k)) by lia. reflexivity. }
      rewrite (G 0%nat). destruct (find_idx comps c 0) as [i|]; [|reflexivity]. now rewrite Nat.sub_0_r.
    - intros i Hi. apply find_idx_range in Hi. lia.
  Qed.
End VP.

(** subducting velocity table (mass conserving): the evaluator (utilities.cc:1366-1375) switches to [ridge][point] indexing
    as soon as the first row has more than one entry; an accepted table then has exactly the shape of the ridge coordinates,
    so row r exists for every ridge r and has an entry for every ridge point *)
Lemma nat_list_eqb_eq a : forall b, nat_list_eqb a b = true -> a = b.
Proof.
  induction a as [|x a IH]; intros [|y b] H; cbn [nat_list_eqb] in H; try discriminate; [reflexivity|].
  apply andb_prop in H. destruct H as [H1 H2]. apply Nat.eqb_eq in H1. subst y. f_equal. apply IH. exact H2.
Qed.

Theorem subducting_table_shape ridges rows :
  sig_ok (SigSubducting ridges rows) = true -> 1 < hd 0 rows -> ridges <> [] ->
  rows = ridges /\ forall r i, r < length ridges -> i < nth r ridges 0 -> i < nth r rows 0.
Proof.
  cbn [sig_ok]. intros H H1 Hr. destruct (Nat.ltb_spec 1 (hd 0 rows)) as [_|]; [|lia].
  destruct ridges as [|a ridges]; [contradiction|]. apply nat_list_eqb_eq in H. subst rows. split; [reflexivity|].
  intros r i _ Hi. exact Hi.
Qed.

(** the version entry is accepted only when it is, byte for byte, the library's MAJOR.MINOR *)
Theorem version_accepted_iff file program : sig_ok (SigVersion file program) = true <-> file = program.
Proof.
  cbn [sig_ok]. revert program. induction file as [|x a IH]; intros [|y b]; cbn [bytes_eqb]; split; intros H; try discriminate; try reflexivity.
  - apply andb_prop in H. destruct H as [H1 H2]. apply N.eqb_eq in H1. apply IH in H2. now subst.
  - injection H as -> ->. rewrite N.eqb_refl. apply IH. reflexivity.
Qed.

(** spreading velocities: every index the constructor's loop reads lies inside the list *)
Lemma group_reads_bound ridges : forall single idx i, In i (group_reads ridges single idx) ->
  if single then i = 0 else idx <= i < idx + sum_list ridges.
Proof.
  induction ridges as [|n r IH]; intros single idx i H; cbn [group_reads] in H; [contradiction|].
  apply in_app_or in H. destruct H as [H|H].
  - apply in_map_iff in H. destruct H as [k [E Hk]]. apply in_seq in Hk. destruct single; [now subst|].
    cbn [sum_list fold_right]. fold (sum_list r). lia.
  - apply IH in H. destruct single; [exact H|]. cbn [sum_list fold_right]. fold (sum_list r). lia.
Qed.

Theorem spreading_reads_in_bounds ridges nvel i :
  sig_ok (SigSpreading ridges nvel) = true ->
  In i (group_reads ridges (nvel =? 1) 0) -> i < nvel.
Proof.
  cbn [sig_ok]. intros H Hi. apply group_reads_bound in Hi. destruct (Nat.eqb_spec nvel 1) as [E|E].
  - subst. lia.
  - cbn [orb] in H. apply Nat.eqb_eq in H. lia.
Qed.

(** and what the loop builds has one velocity per ridge point *)
Lemma take_group_length {A} n single (vels : list A) idx d : length (take_group n single vels idx d) = n.
Proof. revert idx. induction n as [|n IH]; intros idx; cbn [take_group length]; [reflexivity | now rewrite IH]. Qed.

Theorem group_velocities_shape {A} ridges single (vels : list A) d : forall idx,
  map (@length A) (group_velocities ridges single vels idx d) = ridges.
Proof.
  induction ridges as [|n r IH]; intros idx; cbn [group_velocities map]; [reflexivity|].
  now rewrite take_group_length, IH.
Qed.

(** the reads of [take_group]/[group_velocities] are [group_reads] *)
Lemma take_group_reads {A} n single (vels : list A) idx d :
  take_group n single vels idx d = map (fun k => nth (if single then 0 else idx + k) vels d) (seq 0 n).
Proof.
  revert idx. induction n as [|n IH]; intros idx; cbn [take_group]; [reflexivity|].
  rewrite IH. cbn [seq map]. rewrite Nat.add_0_r. f_equal. rewrite <- seq_shift, map_map.
  apply map_ext. intros k. destruct single; [reflexivity|]. f_equal. lia.
Qed.

Theorem group_velocities_reads {A} ridges single (vels : list A) d : forall idx,
  concat (group_velocities ridges single vels idx d) = map (fun i => nth i vels d) (group_reads ridges single idx).
Proof.
  induction ridges as [|n r IH]; intros idx; cbn [group_velocities group_reads concat]; [reflexivity|].
  rewrite map_app, IH, take_group_reads, map_map. reflexivity.
Qed.

(** sections of slabs and faults: once every section entry names an existing coordinate and has as many segments as the
    feature, the segment table is rectangular - every row has the feature's number of segments - so the interpolation
    between the rows s and s+1 finds segment i in both *)
From WB Require Import SlabLayout.
Section Rect.
  Context {K M G : Type}.
  Lemma find_entry_in (es : list (section_entry K M G)) i : forall acc e,
    find_entry es i acc = Some e -> acc = Some e \/ In e es.
  Proof.
    induction es as [|x r IH]; intros acc e H; cbn [find_entry] in H; [left; exact H|].
    apply IH in H. destruct H as [H|H]; [|right; right; exact H].
    destruct (Nat.eqb (se_coord x) i); [injection H as <-; right; left; reflexivity | left; exact H].
  Qed.

  Theorem table_rectangular (L : layout K M G) :
    (forall e, In e (ly_sections L) ->
       sig_ok (SigSection (ly_n L) (se_coord e) (length (ly_default L)) (length (se_segments e))) = true) ->
    length (table L) = ly_n L /\ Forall (fun row => length row = length (ly_default L)) (table L).
  Proof.
    intros H. unfold table. split; [now rewrite map_length, seq_length|].
    apply Forall_forall. intros row Hr. apply in_map_iff in Hr. destruct Hr as [i [<- _]].
    unfold section_of. destruct (find_entry (ly_sections L) i None) as [e|] eqn:E.
    - apply find_entry_in in E. destruct E as [E|E]; [discriminate|].
      specialize (H e E). cbn [sig_ok] in H. apply andb_prop in H. destruct H as [_ H]. apply Nat.eqb_eq in H.
      now rewrite map_length.
    - now rewrite map_length.
  Qed.
End Rect.
