(** * WorldProofs2: consequences of the block theorem (lengths, history, stand-alone queries,
      2-D projection, background, deletion of non-covering features, last tag). *)
From Coq Require Import List Arith NArith Lia Bool Permutation.
From WB Require Import Num Base Props World WorldProofs.
Import ListNotations.

Section Proofs2.
  Context {F : Type} {NF : Num F}.
  Notation feature := (@feature F).
  Notation world := (@world F).
  Notation query := (@query F).

  (** ** lengths, with or without random draws *)
  Lemma paint_slots_length (f : feature) q wt regs : paint_len f -> forall out t,
    regs_good (length out) regs ->
    length (fst (fold_left (paint_slot f q wt) regs (out, t))) = length out.
  Proof.
    intros Hf. induction regs as [|pe r IH]; intros out t G; [reflexivity|].
    cbn [regs_good] in G. destruct G as (G1 & G2 & G3). cbn [fold_left].
    unfold paint_slot at 2. destruct pe as [p off]. cbn [fst snd] in *.
    destruct (ft_paint f q wt p t (slice off (width p) out)) as [b t1] eqn:E.
    assert (L : length b = width p).
    { replace b with (fst (ft_paint f q wt p t (slice off (width p) out))) by now rewrite E.
      apply Hf, slice_length, G1. }
    rewrite IH; rewrite blit_length; rewrite ?L; auto.
  Qed.

  Lemma features_length fs q wt regs : Forall paint_len fs -> forall (out : list F) t,
    regs_good (length out) regs ->
    length (fst (fold_left (feature_apply q wt regs) fs (out, t))) = length out.
  Proof.
    intros H. induction H as [|f fs Hf Hfs IH]; intros out t G; [reflexivity|].
    cbn [fold_left]. unfold feature_apply at 2. destruct (ft_covers f q).
    - destruct (fold_left (paint_slot f q wt) regs (out, t)) as [o1 t1] eqn:E.
      assert (L : length o1 = length out).
      { replace o1 with (fst (fold_left (paint_slot f q wt) regs (out, t))) by now rewrite E.
        apply paint_slots_length; auto. }
      rewrite IH; rewrite L; auto.
    - apply IH, G.
  Qed.

  Theorem properties3d_length (w : world) pos depth ps t r t' :
    world_ok w -> properties3d w pos depth ps t = Ok (r, t') -> length r = output_size ps.
  Proof.
    intros WO. unfold properties3d, properties_at. cbn [mk_query q_depth q_g]. rewrite init_from_eq. cbn [length app].
    destruct (existsb _ _); [discriminate|]. intros E. inversion E as [E']; clear E.
    pose proof (f_equal fst E') as X. cbn [fst] in X. rewrite <- X.
    rewrite features_length; [apply init_out_length | exact WO |].
    rewrite init_out_length. apply init_regs_good.
  Qed.

  (** ** without random models the tape position is irrelevant and unchanged *)
  Definition features_out (fs : list feature) q wt regs (out : list F) : list F :=
    fold_left (fun o f => if ft_covers f q then blockwise (paint0 f q wt) regs o else o) fs out.

  Lemma features_fold_out fs q wt regs : Forall no_random fs -> forall out t,
    fold_left (feature_apply q wt regs) fs (out, t) = (features_out fs q wt regs out, t).
  Proof.
    intros H. induction H as [|f fs Hf Hfs IH]; intros out t; [reflexivity|].
    cbn [fold_left]. rewrite (feature_apply_eq f q wt regs out t Hf). apply IH.
  Qed.

  Theorem properties3d_tape_irrelevant (w : world) pos depth ps t r t' :
    world_no_random w -> properties3d w pos depth ps t = Ok (r, t') ->
    t' = t /\ forall t2, properties3d w pos depth ps t2 = Ok (r, t2).
  Proof.
    intros WN. unfold properties3d, properties_at. cbn [mk_query q_depth q_g]. rewrite init_from_eq. cbn [length app].
    destruct (existsb _ _); [discriminate|]. rewrite features_fold_out by exact WN.
    intros E. inversion E; subst. split; [reflexivity|]. intros t2.
    rewrite features_fold_out by exact WN. reflexivity.
  Qed.

  (** a history of queries: run them one after the other, threading the tape *)
  Definition q3 : Type := (@vec3 F * F * list prop_req)%type.
  Fixpoint run_history (w : world) (h : list q3) (t : nat) : res nat :=
    match h with
    | [] => Ok t
    | (pos, d, ps) :: r =>
        match properties3d w pos d ps t with
        | Ok (_, t') => run_history w r t'
        | Err e => Err e
        end
    end.

  Theorem history_irrelevant (w : world) h t t1 pos d ps r t' :
    world_no_random w ->
    run_history w h t = Ok t1 ->
    properties3d w pos d ps t = Ok (r, t') ->
    properties3d w pos d ps t1 = Ok (r, t1).
  Proof.
    intros WN. revert t. induction h as [|[[p0 d0] ps0] h IH]; intros t H E.
    - cbn in H. inversion H; subst. destruct (properties3d_tape_irrelevant w pos d ps t1 r t' WN E) as [-> _]. exact E.
    - cbn [run_history] in H. destruct (properties3d w p0 d0 ps0 t) as [[r0 t0]|e] eqn:E0; [|discriminate].
      destruct (properties3d_tape_irrelevant w p0 d0 ps0 t r0 t0 WN E0) as [-> _].
      eapply IH; eauto.
  Qed.

  (** ** a block of a batched request is the stand-alone answer *)
  Lemma registered_in_regs w d s ps pe : In pe (init_regs w d s ps) -> In (fst pe) ps /\ registered w d (fst pe) = true.
  Proof.
    unfold init_regs. intros I. apply filter_In in I. destruct I as [I R]. split; [|exact R].
    destruct pe as [p off]. apply in_combine_l in I. exact I.
  Qed.

  Lemma throws_single (w : world) q wt d ps p :
    In p ps ->
    existsb (fun f => ft_cov_err f q || (ft_covers f q && existsb (fun pe => ft_paint_err f q wt (fst pe)) (init_regs w d 0 [p]))) (w_features w) = true ->
    existsb (fun f => ft_cov_err f q || (ft_covers f q && existsb (fun pe => ft_paint_err f q wt (fst pe)) (init_regs w d 0 ps))) (w_features w) = true.
  Proof.
    intros I H. apply existsb_exists in H. destruct H as (f & Hf & H). apply existsb_exists. exists f. split; [exact Hf|].
    apply orb_true_iff in H. destruct H as [H|H]; [now rewrite H|].
    apply andb_true_iff in H. destruct H as [C H]. rewrite C. cbn [andb]. apply orb_true_iff. right.
    apply existsb_exists in H. destruct H as (pe & Hpe & Hp).
    apply registered_in_regs in Hpe. destruct Hpe as [Hin R]. cbn in Hin. destruct Hin as [Hin|[]]. 
    destruct (In_nth_error ps p I) as [i Hi].
    apply existsb_exists. exists (p, 0 + output_size (firstn i ps)). split.
    - apply In_init_regs; [exact Hi| now rewrite Hin].
    - cbn [fst]. rewrite Hin. exact Hp.
  Qed.

  Theorem block_is_standalone (w : world) pos depth ps t r t' i p :
    world_ok w -> world_no_random w ->
    properties3d w pos depth ps t = Ok (r, t') ->
    nth_error ps i = Some p ->
    properties3d w pos depth [p] t = Ok (slice (nth i (offsets ps) 0) (width p) r, t).
  Proof.
    intros WO WN E Hp.
    assert (Hi : i < length ps) by (apply nth_error_Some; congruence).
    unfold offsets. rewrite (offsets_from_nth ps 0 i Hi). cbn [Nat.add].
    destruct (properties3d_blocks w pos depth ps t r t' WO WN E) as (_ & _ & B).
    rewrite (B i p Hp).
    destruct (properties3d w pos depth [p] t) as [[r1 t1]|e] eqn:E1.
    - destruct (properties3d_blocks w pos depth [p] t r1 t1 WO WN E1) as (-> & L1 & B1).
      specialize (B1 0 p eq_refl). cbn [firstn] in B1. unfold output_size at 1 in B1. cbn [fold_left] in B1.
      rewrite output_size_cons in L1. unfold output_size in L1. cbn [fold_left] in L1.
      unfold slice in B1. cbn [skipn] in B1. rewrite firstn_all2 in B1 by lia. now rewrite B1.
    - exfalso. unfold properties3d, properties_at in E, E1. cbn [mk_query q_depth q_g] in E, E1. rewrite init_from_eq in E, E1. cbn [length app] in E, E1.
      destruct (existsb _ (w_features w)) eqn:X in E1.
      + apply (throws_single w _ _ depth ps p (nth_error_In _ _ Hp)) in X. rewrite X in E. discriminate.
      + discriminate.
  Qed.

  (** ** 2-D wrapper: the velocity projection acts block by block *)
  Definition proj_block (d : @vec2 F) (p : prop_req) (blk : list F) : list F :=
    match p with
    | PVel => [fadd (fmul (fst d) (nth 0 blk f0)) (fmul (snd d) (nth 1 blk f0)); nth 2 blk f0; f0]
    | _ => blk
    end.

  Lemma nth_firstn' : forall n (l : list F) j, j < n -> nth j (firstn n l) f0 = nth j l f0.
  Proof.
    induction n as [|n IH]; intros l j H; [lia|].
    destruct l as [|a l]; [reflexivity|]. destruct j as [|j]; [reflexivity|].
    cbn [firstn nth]. apply IH. lia.
  Qed.

  Lemma nth_skipn' : forall off (l : list F) j, nth j (skipn off l) f0 = nth (off + j) l f0.
  Proof.
    induction off as [|off IH]; intros l j; [reflexivity|].
    destruct l as [|a l]; [destruct j; reflexivity|]. cbn [skipn Nat.add nth]. apply IH.
  Qed.

  Lemma nth_slice (l : list F) off n j : j < n -> off + n <= length l -> nth j (slice off n l) f0 = nth (off + j) l f0.
  Proof. intros Hj Hl. unfold slice. rewrite nth_firstn' by exact Hj. apply nth_skipn'. Qed.

  Lemma project2d_spec d ps : forall c r,
    c + output_size ps <= length r ->
    length (project2d d ps c r) = length r /\
    (forall off n, off + n <= c -> slice off n (project2d d ps c r) = slice off n r) /\
    (forall i p, nth_error ps i = Some p ->
       slice (c + output_size (firstn i ps)) (width p) (project2d d ps c r) =
       proj_block d p (slice (c + output_size (firstn i ps)) (width p) r)).
  Proof.
    induction ps as [|p ps IH]; intros c r H.
    - cbn. repeat split; auto. intros [|i] p0 Hp; discriminate.
    - rewrite output_size_cons in H.
      assert (Gen : forall r', length r' = length r ->
                (forall off n, off + n <= c -> slice off n r' = slice off n r) ->
                (forall off n, c + width p <= off -> slice off n r' = slice off n r) ->
                slice c (width p) r' = proj_block d p (slice c (width p) r) ->
                length (project2d d ps (c + width p) r') = length r /\
                (forall off n, off + n <= c -> slice off n (project2d d ps (c + width p) r') = slice off n r) /\
                (forall i p0, nth_error (p :: ps) i = Some p0 ->
                   slice (c + output_size (firstn i (p :: ps))) (width p0) (project2d d ps (c + width p) r') =
                   proj_block d p0 (slice (c + output_size (firstn i (p :: ps))) (width p0) r))).
      { intros r' L Lo Hi Hd.
        destruct (IH (c + width p) r') as (I1 & I2 & I3); [rewrite L; lia|].
        repeat split.
        - now rewrite I1.
        - intros off n Hoff. rewrite I2 by lia. apply Lo, Hoff.
        - intros [|i] p0 Hp0; cbn [nth_error firstn] in *.
          + inversion Hp0; subst p0. change (output_size []) with 0. rewrite !Nat.add_0_r.
            rewrite I2 by lia. exact Hd.
          + rewrite output_size_cons.
            replace (c + (width p + output_size (firstn i ps))) with (c + width p + output_size (firstn i ps)) by lia.
            rewrite (I3 i p0 Hp0). f_equal. apply Hi. lia. }
      destruct p; cbn [project2d width] in *;
        try (apply (Gen r eq_refl); auto; fail).
      (* velocity *)
      set (blk := [fadd (fmul (fst d) (nth c r f0)) (fmul (snd d) (nth (c + 1) r f0)); nth (c + 2) r f0; f0]).
      assert (Lb : length blk = 3) by reflexivity.
      apply (Gen (blit c blk r)).
      + apply blit_length. rewrite Lb. lia.
      + intros off n Hoff. apply slice_blit_other; rewrite ?Lb; lia.
      + intros off n Hoff. apply slice_blit_other; rewrite ?Lb; lia.
      + rewrite <- Lb at 1. rewrite slice_blit_same by (rewrite Lb; lia).
        unfold proj_block, blk. rewrite !nth_slice by lia. rewrite Nat.add_0_r. reflexivity.
  Qed.

  Theorem properties2d_blocks (w : world) p2 depth ps t r t' i p :
    world_ok w -> world_no_random w ->
    properties2d w p2 depth ps t = Ok (r, t') ->
    nth_error ps i = Some p ->
    properties2d w p2 depth [p] t = Ok (slice (nth i (offsets ps) 0) (width p) r, t).
  Proof.
    intros WO WN. unfold properties2d. destruct (w_cross w) as [cs|]; [|discriminate].
    destruct (properties3d w (map2d w cs p2) depth ps t) as [[r3 t3]|e] eqn:E3; [|discriminate].
    intros E Hp. inversion E; subst r t'. clear E.
    pose proof (block_is_standalone w _ depth ps t r3 t3 i p WO WN E3 Hp) as S1.
    rewrite S1.
    assert (Hi : i < length ps) by (apply nth_error_Some; congruence).
    pose proof (properties3d_length w _ depth ps t r3 t3 WO E3) as L3.
    destruct (project2d_spec (cross_dir cs) ps 0 r3) as (P1 & P2 & P3); [cbn; lia|].
    unfold offsets. rewrite (offsets_from_nth ps 0 i Hi). cbn [Nat.add] in *.
    rewrite (P3 i p Hp).
    f_equal. f_equal.
    assert (Ls : length (slice (output_size (firstn i ps)) (width p) r3) = width p).
    { apply slice_length. rewrite L3.
      destruct (nth_error_split _ _ Hp) as (l1 & l2 & -> & <-).
      rewrite firstn_app, Nat.sub_diag, firstn_all. cbn [firstn]. rewrite app_nil_r.
      rewrite output_size_app, output_size_cons. lia. }
    destruct (project2d_spec (cross_dir cs) [p] 0 (slice (output_size (firstn i ps)) (width p) r3)) as (Q1 & Q2 & Q3).
    { rewrite output_size_cons. change (output_size []) with 0. rewrite Ls. lia. }
    specialize (Q3 0 p eq_refl). cbn [firstn] in Q3. change (output_size []) with 0 in Q3. cbn [Nat.add] in Q3.
    unfold slice at 1 3 in Q3. cbn [skipn] in Q3.
    rewrite !firstn_all2 in Q3 by lia. rewrite Q3. f_equal. apply firstn_all2. lia.
  Qed.

  (** ** background: no feature covers the point *)
  Lemma features_none_cover fs (q : query) wt regs st :
    Forall (fun f => ft_covers f q = false) fs -> fold_left (feature_apply q wt regs) fs st = st.
  Proof.
    intros H. revert st. induction H as [|f fs Hf Hfs IH]; intros st; [reflexivity|].
    cbn [fold_left]. unfold feature_apply at 2. rewrite Hf. apply IH.
  Qed.

  Theorem outside_all_features (w : world) pos depth ps t r t' :
    Forall (fun f => ft_covers f (mk_query w pos depth) = false) (w_features w) ->
    properties3d w pos depth ps t = Ok (r, t') ->
    r = init_out w (w_gravity w) depth ps /\ t' = t.
  Proof.
    intros H. unfold properties3d, properties_at. cbn [mk_query q_depth q_g]. rewrite init_from_eq. cbn [length app].
    destruct (existsb _ _); [discriminate|]. rewrite features_none_cover by exact H.
    intros E. inversion E; subst. split; reflexivity.
  Qed.

  (** ** deleting a feature that does not contain the point changes nothing *)
  Definition eval_features (fs : list feature) (q : query) (wt : @wtemp F) regs st := fold_left (feature_apply q wt regs) fs st.

  Lemma eval_delete fs1 f fs2 (q : query) wt regs st :
    ft_covers f q = false ->
    eval_features (fs1 ++ f :: fs2) q wt regs st = eval_features (fs1 ++ fs2) q wt regs st.
  Proof.
    intros H. unfold eval_features. rewrite !fold_left_app. cbn [fold_left].
    unfold feature_apply at 2. rewrite H. reflexivity.
  Qed.

  Lemma eval_filter fs (q : query) wt regs : forall st,
    eval_features fs q wt regs st = eval_features (filter (fun f => ft_covers f q) fs) q wt regs st.
  Proof.
    induction fs as [|f fs IH]; intros st; [reflexivity|]. cbn [filter].
    destruct (ft_covers f q) eqn:C; unfold eval_features in *; cbn [fold_left].
    - apply IH.
    - unfold feature_apply at 2. rewrite C. apply IH.
  Qed.

  (** ** the tag is that of the last covering feature *)
  Definition paints_tag (f : feature) : Prop :=
    forall q wt t blk, ft_paint f q wt PTag t blk = ([ft_tag f], t).

  Definition last_covering (fs : list feature) (q : query) : option feature :=
    fold_left (fun acc f => if ft_covers f q then Some f else acc) fs None.

  Lemma block_eval_tag fs (q : query) wt : Forall paints_tag fs -> forall blk,
    block_eval fs q wt PTag blk =
    match last_covering fs q with Some f => [ft_tag f] | None => blk end.
  Proof.
    induction fs as [|f fs IH] using rev_ind; intros H blk; [reflexivity|].
    apply Forall_app in H. destruct H as [H1 H2]. inversion H2 as [|x l Hf _]; subst.
    unfold block_eval, last_covering. rewrite !fold_left_app. cbn [fold_left].
    fold (block_eval fs q wt PTag blk). fold (last_covering fs q).
    destruct (ft_covers f q).
    - unfold paint0. rewrite Hf. reflexivity.
    - apply IH, H1.
  Qed.
End Proofs2.
