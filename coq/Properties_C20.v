(** * C20 - cooling models stay inside their physical envelope ([R] theorems; erfc laws as premises). *)
From Coq Require Import Reals Lra List ZArith Bool.
From WB Require Import Num Base RNum Props World Kernels Features ModelProofs SlabMass SlabFeature SlabTempProofs SeriesProofs.
Import ListNotations.
Local Open Scope R_scope.

Section C20.
  Variable sp : special.
  Local Existing Instance Rnum.
  Let N := Rnum sp.

  (** half-space cooling: between top and bottom temperature, top temperature at depth zero *)
  Theorem C20_half_space_envelope : forall kappa top bot age d,
    special_laws sp -> 0 < kappa -> 0 < age -> 0 <= d -> top <= bot ->
    top <= @half_space_T R N kappa top bot age d <= bot /\ @half_space_T R N kappa top bot age 0 = top.
  Proof. exact (half_space_envelope sp). Qed.

  (** ... rising monotonically with depth ... *)
  Theorem C20_half_space_depth : forall kappa top bot age d1 d2,
    special_laws sp -> 0 < kappa -> 0 < age -> 0 <= d1 <= d2 -> top <= bot ->
    @half_space_T R N kappa top bot age d1 <= @half_space_T R N kappa top bot age d2.
  Proof. exact (half_space_monotone_depth sp). Qed.

  (** ... and falling with lithospheric age *)
  Theorem C20_half_space_age : forall kappa top bot age1 age2 d,
    special_laws sp -> 0 < kappa -> 0 < age1 <= age2 -> 0 <= d -> top <= bot ->
    @half_space_T R N kappa top bot age2 d <= @half_space_T R N kappa top bot age1 d.
  Proof. exact (half_space_monotone_age sp). Qed.

  (** linear models: boundary temperatures attained at the local top and bottom, values in between *)
  Theorem C20_linear : forall top bot a b d,
    10 * powerRZ 2 (-52) <= b - a ->
    @linear_T R N top bot a b a = top /\ @linear_T R N top bot a b b = bot /\
    (a <= d <= b -> top <= bot -> top <= @linear_T R N top bot a b d <= bot).
  Proof. exact (linear_boundaries_and_envelope sp). Qed.

  (** plate models (ridge-age and constant-age): the series vanishes at depth 0 and at max depth, so
      the prescribed top and bottom temperatures are attained at the model's own boundaries *)
  Theorem C20_plate_boundaries : forall n dT md expo (top bot : R), md <> 0 ->
    @plate_series R N n 1 dT 0 md expo (top + (bot - top) * (0 / md)) = top /\
    @plate_series R N n 1 dT md md expo (top + (bot - top) * (md / md)) = bot.
  Proof.
    intros n dT md expo top bot H. destruct (plate_model_boundaries sp n dT md expo (top + (bot - top) * (0 / md)) H) as [A _].
    destruct (plate_model_boundaries sp n dT md expo (top + (bot - top) * (md / md)) H) as [_ B].
    split; [etransitivity; [exact A|] | etransitivity; [exact B|]]; field; exact H.
  Qed.

  (** mass conserving slab, half-space reference, on and below the slab top (adjusted distance >= 0): between the
      model's minimum temperature and the background (ambient temperature or adiabat) at that depth, and exactly the
      minimum temperature on the slab top.  The top side (the Gaussian heat anomaly above the slab) and the plate
      reference are decided by the search of lib/c20.py. *)
  Theorem C20_mass_conserving_bottom_side : forall (m : @mass_model R) top minT bgT old subvel age adj,
    special_laws sp -> mc_plate_reference m = false -> 0 <= adj -> 0 < mc_kappa m * age -> minT <= bgT ->
    minT <= @temperature_analytic R N m top minT bgT old subvel age adj <= bgT.
  Proof. exact (mass_bottom_side_envelope sp). Qed.

  Theorem C20_mass_conserving_slab_top : forall (m : @mass_model R) top minT bgT old subvel age,
    special_laws sp -> mc_plate_reference m = false ->
    @temperature_analytic R N m top minT bgT old subvel age 0 = minT.
  Proof. exact (mass_slab_top_value sp). Qed.

  (** mass conserving slab, above the slab top (adjusted distance < 0; the same formula for both reference models): the Gaussian
      heat deficit never heats - the result is at most the incoming temperature - and never cools below the slab's minimum
      temperature (up to the 1e-16 the formula adds to its denominators).  Together with the bottom side: with the half-space
      reference the model stays between its minimum temperature and the larger of incoming temperature and background. *)
  Theorem C20_mass_conserving_top_side : forall (m : @mass_model R) top minT bgT old subvel age adj,
    adj < 0 -> top <= 0 -> 0 < mc_density m * mc_cp m -> 0 < mc_kappa m -> minT <= old ->
    old - minT <> @fdec R N 1 (-16) ->
    minT - @fdec R N 1 (-16) <= @temperature_analytic R N m top minT bgT old subvel age adj <= old.
  Proof. exact (mass_top_side_envelope sp). Qed.

  (** slab plate model (McKenzie 1970): the series vanishes on the slab top and on the slab bottom *)
  Theorem C20_slab_plate_model_boundaries : forall n i Rn x acc,
    @mckenzie_sum R N n i Rn x 0 acc = acc /\ @mckenzie_sum R N n i Rn x 1 acc = acc.
  Proof. exact (mckenzie_vanishes_on_boundaries sp). Qed.

  (** truncated plate series (ridge-age and constant-age): the temperature leaves the envelope [top, bot] of its end members
      by at most (bot - top) times the amplitude sum  sum_i 2/(i pi) exp(expo i)  of the terms - the two-sided bound
      that does hold for a truncated series, at every age (the young ages of finding D15 included) *)
  Theorem C20_plate_series_overshoot : forall n top bot d md expo,
    top <= bot -> 0 < md -> 0 <= d <= md ->
    let T := @plate_series R N n 1 (bot - top) d md expo (top + (bot - top) * (d / md)) in
    top - (bot - top) * series_bound n 1 expo <= T <= bot + (bot - top) * series_bound n 1 expo.
  Proof. exact (plate_model_overshoot sp). Qed.

  (** constant-age plate model: the possible overshoot dies out exponentially with the dimensionless age kappa*age/md^2 *)
  Theorem C20_constant_age_overshoot : forall n top bot d md kap age,
    top <= bot -> 0 < md -> 0 <= d <= md -> 0 <= kap -> 0 <= age ->
    let expo := fun fi : R => (((((((- 1) * fi) * fi) * PI) * PI) * kap) * age) / (md * md) in
    let T := @plate_series R N n 1 (bot - top) d md expo (top + (bot - top) * (d / md)) in
    let B := INR n * (2 / PI * exp (- (PI * PI * kap * age / (md * md)))) in
    top - (bot - top) * B <= T <= bot + (bot - top) * B.
  Proof. exact (const_age_plate_envelope sp). Qed.

  (** ridge-age plate model (exponent (A - sqrt(A^2 + i^2 pi^2)) * distance/md, A = v*md/(2 kappa)): the same with the first
      term's exponent *)
  Theorem C20_ridge_age_overshoot : forall n top bot d md kap v age,
    top <= bot -> 0 < md -> 0 <= d <= md -> 0 <= (v * age) / md ->
    let expo := fun fi : R => (((v * md) / (2 * kap)) - sqrt (((((v * v) * md) * md) / ((4 * kap) * kap)) + (((fi * fi) * PI) * PI)))
                              * ((v * age) / md) in
    let T := @plate_series R N n 1 (bot - top) d md expo (top + (bot - top) * (d / md)) in
    let B := INR n * (2 / PI * exp ((((v * md) / (2 * kap)) - sqrt (((((v * v) * md) * md) / ((4 * kap) * kap)) + PI * PI)) * ((v * age) / md))) in
    top - (bot - top) * B <= T <= bot + (bot - top) * B.
  Proof. exact (ridge_age_plate_envelope sp). Qed.
End C20.

Print Assumptions C20_half_space_envelope.
Print Assumptions C20_half_space_depth.
Print Assumptions C20_half_space_age.
Print Assumptions C20_linear.
Print Assumptions C20_plate_boundaries.
Print Assumptions C20_mass_conserving_bottom_side.
Print Assumptions C20_mass_conserving_slab_top.
Print Assumptions C20_mass_conserving_top_side.
Print Assumptions C20_slab_plate_model_boundaries.
Print Assumptions C20_plate_series_overshoot.
Print Assumptions C20_constant_age_overshoot.
Print Assumptions C20_ridge_age_overshoot.
