(** * Apps: the logic of the command line tools that the properties talk about.
    - [parallel_for]: slice arithmetic of gwb-grid's ThreadPool (source/gwb-grid/main.cc:154-213). *)
From Coq Require Import List Arith Lia PeanoNat.
Import ListNotations.

(** parallel_for(start,end): n = end-start+1; slice = max (n / P) 1;
    i1 = start; i2 = min(start+slice, end);
    for (i = 0; i+1 < P && i1 < end; ++i) { launch [i1,i2); i1 = i2; i2 = min(i2+slice, end); }
    if (i1 < end) launch [i1,end) on the last pool entry. *)
Fixpoint launch (k : nat) (i1 i2 slice e : nat) : list (nat * nat) :=
  match k with
  | 0 => if i1 <? e then [(i1, e)] else []
  | S k' => if i1 <? e then (i1, i2) :: launch k' i2 (Nat.min (i2 + slice) e) slice e
            else []   (* the loop exits, and the trailing "if (i1 < end)" is false too *)
  end.

Definition parallel_for (s e P : nat) : list (nat * nat) :=
  let n := e - s + 1 in
  let slice := Nat.max (n / P) 1 in
  launch (P - 1) s (Nat.min (s + slice) e) slice e.

(** a chain of non-empty, consecutive half-open intervals from a to b: a partition of [a,b) *)
Fixpoint chain (a b : nat) (l : list (nat * nat)) : Prop :=
  match l with
  | [] => a = b
  | (x, y) :: l' => x = a /\ x < y /\ chain y b l'
  end.

Lemma launch_chain k : forall i1 i2 slice e,
  1 <= slice -> i1 <= e -> i2 = Nat.min (i1 + slice) e ->
  chain i1 e (launch k i1 i2 slice e).
Proof.
  induction k as [|k IH]; intros i1 i2 slice e Hs Hle Hi2; cbn [launch].
  - destruct (Nat.ltb_spec i1 e); cbn; lia.
  - destruct (Nat.ltb_spec i1 e) as [Hlt|Hge]; cbn [chain].
    + split; [reflexivity|]. split; [lia|]. apply IH; lia.
    + lia.
Qed.

Lemma launch_len k : forall i1 i2 slice e, length (launch k i1 i2 slice e) <= S k.
Proof. induction k as [|k IH]; intros; cbn [launch]; destruct (_ <? _); cbn; auto with arith. Qed.

Theorem parallel_for_partition s e P : s <= e -> 1 <= P ->
  chain s e (parallel_for s e P) /\ length (parallel_for s e P) <= P.
Proof.
  intros Hse HP. unfold parallel_for. split.
  - apply launch_chain; lia.
  - pose proof (launch_len (P - 1) s (Nat.min (s + Nat.max ((e - s + 1) / P) 1) e) (Nat.max ((e - s + 1) / P) 1) e). lia.
Qed.

(** every index of [s,e) lies in exactly one launched interval *)
Lemma chain_cover a b l : chain a b l -> forall k, a <= k < b -> exists x y, In (x, y) l /\ x <= k < y.
Proof.
  revert a. induction l as [|[x y] l IH]; intros a H k Hk; cbn [chain] in H.
  - lia.
  - destruct H as (-> & Hxy & Hc). destruct (Nat.lt_ge_cases k y) as [Hky|Hky].
    + exists a, y. split; [left; reflexivity|lia].
    + destruct (IH y Hc k ltac:(lia)) as (x' & y' & I & R). exists x', y'. split; [right; exact I|exact R].
Qed.

Lemma chain_bounds a b l : chain a b l -> a <= b /\ forall x y, In (x, y) l -> a <= x /\ x < y /\ y <= b.
Proof.
  revert a. induction l as [|[x y] l IH]; intros a H; cbn [chain] in H.
  - split; [lia|]. intros x y [].
  - destruct H as (-> & Hxy & Hc). destruct (IH y Hc) as [L B]. split; [lia|].
    intros x' y' [E|I]; [inversion E; subst; lia|]. destruct (B x' y' I). lia.
Qed.

Lemma chain_disjoint a b l : chain a b l ->
  forall i j x1 y1 x2 y2, i < j -> nth_error l i = Some (x1, y1) -> nth_error l j = Some (x2, y2) -> y1 <= x2.
Proof.
  revert a. induction l as [|[x y] l IH]; intros a H i j x1 y1 x2 y2 Hij Hi Hj; [destruct i; discriminate|].
  cbn [chain] in H. destruct H as (-> & Hxy & Hc).
  destruct j as [|j]; [lia|]. cbn [nth_error] in Hj. destruct i as [|i]; cbn [nth_error] in Hi.
  - inversion Hi; subst x1 y1. destruct (chain_bounds y b l Hc) as [_ B].
    destruct (B x2 y2 (nth_error_In _ _ Hj)). lia.
  - apply (IH y Hc i j x1 y1 x2 y2); [lia|assumption|assumption].
Qed.

(** * Wrappers (wrapper_c.cc, wrapper_cpp.cc): argument marshalling and forwarding *)
From Coq Require Import NArith String.
From WB Require Import Num Base Props World.

Section Wrappers.
  Context {F : Type} {NF : Num F}.

  (** arguments of the World constructor *)
  Record world_args := { wa_file : string; wa_has_dir : bool; wa_dir : string; wa_seed : N }.

  (** create_world(ptr, file, has_output_dir*, output_dir*, seed): the two pointers may be null *)
  Definition create_world_args (file : string) (has_dir : option bool) (dir : option string) (seed : N) : world_args :=
    {| wa_file := file;
       wa_has_dir := match has_dir with Some b => b | None => false end;
       wa_dir := match dir with Some s => s | None => EmptyString end;
       wa_seed := seed |}.

  (** the wrapper_cpp constructor forwards its four arguments *)
  Definition wrapper_cpp_args (file : string) (has_dir : bool) (dir : string) (seed : N) : world_args :=
    {| wa_file := file; wa_has_dir := has_dir; wa_dir := dir; wa_seed := seed |}.

  (** the property list crosses the C interface as n rows of three unsigned ints, copied one by one *)
  Definition copy_rows (rows : list (N * N * N)) (n : nat) : list (N * N * N) :=
    map (fun r => (fst (fst r), snd (fst r), snd r)) (firstn n rows).

  Fixpoint decode_all (rows : list (N * N * N)) : option (list prop_req) :=
    match rows with
    | [] => Some []
    | r :: rest => match decode r, decode_all rest with
                   | Some p, Some ps => Some (p :: ps)
                   | _, _ => None
                   end
    end.

  (** native entry point on raw triples *)
  Definition native_properties3d (w : @world F) (x y z depth : F) (rows : list (N * N * N)) (t : nat) :=
    match decode_all rows with
    | Some ps => properties3d w (x, y, z) depth ps t
    | None => Err Throw
    end.
  Definition native_properties2d (w : @world F) (x z depth : F) (rows : list (N * N * N)) (t : nat) :=
    match decode_all rows with
    | Some ps => properties2d w (x, z) depth ps t
    | None => Err Throw
    end.

  (** C wrappers: copy the rows, call the native function, copy the returned values into values[] *)
  Definition c_properties_3d (w : @world F) (x y z depth : F) (rows : list (N * N * N)) (n : nat) (t : nat) :=
    native_properties3d w x y z depth (copy_rows rows n) t.
  Definition c_properties_2d (w : @world F) (x z depth : F) (rows : list (N * N * N)) (n : nat) (t : nat) :=
    native_properties2d w x z depth (copy_rows rows n) t.
  Definition c_temperature_3d (w : @world F) (x y z depth : F) t := temperature3d w (x, y, z) depth t.
  Definition c_temperature_2d (w : @world F) (x z depth : F) t := temperature2d w (x, z) depth t.
  Definition c_composition_3d (w : @world F) (x y z depth : F) c t := composition3d w (x, y, z) depth c t.
  Definition c_composition_2d (w : @world F) (x z depth : F) c t := composition2d w (x, z) depth c t.

  Lemma copy_rows_id rows : copy_rows rows (List.length rows) = rows.
  Proof.
    unfold copy_rows. rewrite firstn_all. induction rows as [|[[a b] c] r IH]; [reflexivity|].
    cbn [map fst snd]. now rewrite IH.
  Qed.
End Wrappers.
