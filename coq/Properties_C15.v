(** * C15 - seeded randomness is reproducible and random grains are valid. *)
From Coq Require Import Reals Lra Lia List ZArith Bool.
From WB Require Import Num Base RNum Props World WorldProofs2 Kernels Features FeaturesProofs RandomProofs Mt19937 MtProofs.
Import ListNotations.

(** [S] answers are a function of the file, the tape of draws (fixed by the seed) and the queries
    made so far: the model is a function, and the number of draws each random model consumes is
    fixed by the request, so equal seeds and equal query sequences give equal answers *)
Section C15S.
  Context {F : Type} {NF : Num F}.

  Theorem C15_grains_draws : forall tape sph (q : @query F) mn mx comps sizes normalize defl c k old t i,
    in_range (ds_min mn) (ds_max mx) (q_depth q) = true ->
    in_range (dsl sph q mn) (dsl sph q mx) (q_depth q) = true ->
    find_idx comps c 0 = Some i ->
    snd (grains_eval tape sph q (GRandom mn mx comps sizes normalize defl) c k (old, t)) =
    t + 3 * N.to_nat k + (if flt (nth i sizes f0) f0 then N.to_nat k else 0).
  Proof. exact random_grains_draws. Qed.

  Theorem C15_composition_draws : forall tape sph (q : @query F) wt mn mx o comps mins maxs c old t i,
    in_range (ds_min mn) (ds_max mx) (q_depth q) = true ->
    in_range (dsl sph q mn) (dsl sph q mx) (q_depth q) = true ->
    find_idx comps c 0 = Some i ->
    snd (comp_eval tape sph q wt (CRandom mn mx o comps mins maxs) c (old, t)) = S t.
  Proof. exact random_composition_draws. Qed.

  (** two worlds built alike (same features, same tape) and queried alike agree *)
  Theorem C15_reproducible : forall (w1 w2 : @world F) h t, w1 = w2 -> run_history w1 h t = run_history w2 h t.
  Proof. intros w1 w2 h t ->. reflexivity. Qed.

  (** a random grains block always has the announced length (k sizes, k 3x3 matrices) *)
  Theorem C15_block_size : forall tape sph (q : @query F) m c k st,
    length (fst st) = N.to_nat k * 10 -> length (fst (grains_eval tape sph q m c k st)) = N.to_nat k * 10.
  Proof. exact grains_eval_length. Qed.
End C15S.

Local Open Scope R_scope.
Section C15R.
  Variable sp : special.
  Local Existing Instance Rnum.
  Let N := Rnum sp.

  (** every random grain orientation is a proper rotation: M M^T = I and det M = +1, for all draws
      (deflection included, as long as 0 <= 2 u3 d <= 2, i.e. deflection in [0,1] and u3 in [0,1)) *)
  Theorem C15_arvo : forall u1 u2 u3 d,
    0 <= 2 * u3 * d <= 2 ->
    let M := @arvo R N u1 u2 u3 d in
    (forall i j, (i < 3)%nat -> (j < 3)%nat ->
       m9 M i 0 * m9 M j 0 + m9 M i 1 * m9 M j 1 + m9 M i 2 * m9 M j 2 = if Nat.eqb i j then 1 else 0) /\
    m9 M 0 0 * (m9 M 1 1 * m9 M 2 2 - m9 M 1 2 * m9 M 2 1)
    - m9 M 0 1 * (m9 M 1 0 * m9 M 2 2 - m9 M 1 2 * m9 M 2 0)
    + m9 M 0 2 * (m9 M 1 0 * m9 M 2 1 - m9 M 1 1 * m9 M 2 0) = 1.
  Proof. exact (arvo_proper_rotation sp). Qed.

  (** grain sizes requested as normalised sum to one *)
  Theorem C15_normalised : forall szs : list R,
    let total := fold_left (fun a s => a + s) szs 0 in
    total <> 0 -> fold_left (fun a s => a + s) (map (fun s => s * (1 / total)) szs) 0 = 1.
  Proof. exact normalised_sizes_sum_to_one. Qed.

  (** a random composition lies within its configured bounds *)
  Theorem C15_composition_bounds : forall a b u : R, a <= b -> 0 <= u < 1 -> a <= u * (b - a) + a <= b.
  Proof. exact random_composition_in_bounds. Qed.
  (** the engine behind the tape (Mt19937.v models std::mt19937 and generate_canonical): over the exact reals every draw
      handed to a model lies in [0,1) - the premise of [C15_composition_bounds] and of the deflection premise of
      [C15_arvo] holds for the model's own stream *)
  Theorem C15_draws_in_unit_interval : forall e0 e1 : BinNums.N, (e0 < 2 ^ 32)%N -> (e1 < 2 ^ 32)%N ->
    0 <= @canonical R N e0 e1 < 1.
  Proof. exact (canonical_unit_interval sp). Qed.
End C15R.

(** the engine: the stream is a function of the seed alone, has the requested length, and consists of 32-bit numbers
    (the hypothesis of [C15_draws_in_unit_interval]); every step reads three real entries of a 624-entry window *)
Theorem C15_engine_outputs : forall seed n,
  length (mt_outputs seed n) = n /\ Forall (fun x => (x < 2 ^ 32)%N) (mt_outputs seed n).
Proof. intros. split; [apply mt_outputs_length | apply mt_outputs_32bit]. Qed.

Theorem C15_engine_window : forall seed n k, (k < n)%nat ->
  exists w, length w = 624%nat /\ nth k (mt_outputs seed n) 0%N = temper (mt_next (nth 0 w 0%N) (nth 1 w 0%N) (nth 397 w 0%N)).
Proof. intros seed n k Hk. apply (mt_window_length n (mt_init seed) (mt_init_length seed) k Hk). Qed.

(** the published reference values of MT19937 (default seed 5489, and seed 1), checked by the kernel; and two seeds
    that give different draws *)
Example C15_engine_reference :
  mt_outputs 5489 3 = [3499211612; 581869302; 3890346734]%N /\ mt_outputs 1 2 = [1791095845; 4282876139]%N /\
  mt_outputs 1 1 <> mt_outputs 2 1.
Proof. repeat split; try (vm_compute; reflexivity). vm_compute. discriminate. Qed.

Print Assumptions C15_grains_draws.
Print Assumptions C15_composition_draws.
Print Assumptions C15_reproducible.
Print Assumptions C15_block_size.
Print Assumptions C15_arvo.
Print Assumptions C15_normalised.
Print Assumptions C15_composition_bounds.
Print Assumptions C15_draws_in_unit_interval.
Print Assumptions C15_engine_outputs.
Print Assumptions C15_engine_window.
