(** * C17 - gwb-dat prints the library's values under its column headers (structural, axiom-free). *)
From Coq Require Import List Arith NArith Lia Bool.
From WB Require Import Props Dat DatProofs.
Import ListNotations.

(** 3-D tables: every printed cell is the value its header names (request list [T, velocity,
    compositions, grain sets, tag], offsets = prefix sums), for every number of compositions, grain
    compositions and grains - PROVIDED the header's "g" column is dropped (see the refutation below) *)
Theorem C17_columns_3d : forall o : dat_options,
  do_dim o = 3 ->
  map (col_cell o) (filter (fun c => match c with CG => false | _ => true end) (dat_header o)) =
  map Some (dat_row o (output_size (dat_properties o))).
Proof.
  intros o H. rewrite dat_columns_3d by (rewrite H; discriminate). f_equal.
  rewrite <- (map_id (dat_row o _)) at 2. apply map_ext. intros c. rewrite H. destruct c as [[|[|[|[|i]]]]|i]; reflexivity.
Qed.

Lemma length_flat_map_const {A B} (f : A -> list B) k l :
  (forall x, length (f x) = k) -> length (flat_map f l) = length l * k.
Proof. intros H. induction l as [|a l IH]; [reflexivity|]. cbn [flat_map length]. rewrite app_length, H, IH. lia. Qed.

(** known finding D12a: the 3-D header announces a column "g" that no row fills: the header has one
    name more than a row has cells, so every value stands one column left of its name *)
Theorem C17_header_g_refuted : forall o : dat_options,
  do_dim o = 3 ->
  In CG (dat_header o) /\ col_cell o CG = None /\
  length (dat_header o) = S (length (dat_row o (output_size (dat_properties o)))).
Proof.
  intros o H. unfold dat_header, dat_row. rewrite H. cbn [Nat.eqb]. split; [|split].
  - right; right; right; right; left; reflexivity.
  - reflexivity.
  - rewrite !app_length, !map_length. cbn [length]. f_equal. f_equal. f_equal.
    unfold grain_cols, grain_cells.
    rewrite (length_flat_map_const _ (do_ngrains o * 10)), (length_flat_map_const _ (do_ngrains o * 10)); [reflexivity| |];
      intros gc; rewrite (length_flat_map_const _ 10); try (rewrite seq_length; reflexivity);
      intros g; cbn [length]; rewrite map_length, seq_length; reflexivity.
Qed.

(** 2-D tables without compositions and grains are right ... *)
Theorem C17_columns_2d_partial : forall o : dat_options,
  do_dim o = 2 -> do_comps o = 0 -> do_gcomps o = 0 ->
  map (col_cell o) (dat_header o) = map Some (dat_row o (output_size (dat_properties o))).
Proof.
  intros [d c g n cv] Hd Hc Hg. cbn in Hd, Hc, Hg. subst. reflexivity.
Qed.

(** ... known finding D12b: with one composition the cell printed under "c0" is answer slot 3 (the
    zero third component of the 2-D velocity block), while composition 0 lives in slot 4 *)
Theorem C17_columns_2d_refuted :
  exists o : dat_options,
    do_dim o = 2 /\
    nth 6 (dat_header o) CTag = CComp 0 /\
    nth 6 (dat_row o (output_size (dat_properties o))) (Echo 0) = Val 3 /\
    col_cell o (CComp 0) = Some (Val 4).
Proof.
  exists {| do_dim := 2; do_comps := 1; do_gcomps := 0; do_ngrains := 0; do_convert := false |}.
  repeat split.
Qed.

(** option and comment lines: a line that is not one of the five documented option forms changes
    nothing (in particular a short line such as a lone "#") *)
Theorem C17_options_short_lines : forall o l,
  length l <= 3 -> dat_option_line o l = o.
Proof.
  intros o l H. destruct l as [|a [|b [|c [|d l]]]].
  - reflexivity.
  - destruct a; reflexivity.
  - destruct a; try reflexivity; destruct b; reflexivity.
  - destruct a; try reflexivity; destruct b; try reflexivity; destruct c; reflexivity.
  - cbn [length] in H. lia.
Qed.

Example C17_options_example :
  dat_options_of [[THash; TOther; TOther]; [THash; TDim; TEq; TNum 2]; [THash; TCompositions; TEq; TNum 9];
                  [THash; TGrain; TCompositions; TEq; TNum 2]; [THash; TNumber; TOf; TGrains; TEq; TNum 2]; [THash]]
  = {| do_dim := 2; do_comps := 9; do_gcomps := 2; do_ngrains := 2; do_convert := false |}.
Proof. reflexivity. Qed.

(** malformed rows are reported: a data row is accepted iff it has exactly dim+1 entries *)
Theorem C17_malformed : forall o n, dat_row_accepted o n = true <-> n = do_dim o + 1.
Proof. intros o n. unfold dat_row_accepted. apply Nat.eqb_eq. Qed.

Print Assumptions C17_columns_3d.
Print Assumptions C17_header_g_refuted.
Print Assumptions C17_columns_2d_partial.
Print Assumptions C17_columns_2d_refuted.
Print Assumptions C17_options_short_lines.
Print Assumptions C17_malformed.
