(** * C13 - queries on a built world are total and return finite numbers.

    [S] theorems, for every number interpretation (hence for binary64, with fisfinite = std::isfinite).
    Every function of the model is a structurally recursive Gallina function (the Newton iteration on its
    bound of 150 steps, the kd search on the number of nodes, the polygon scan on the vertex list), so
    termination of the modelled code is by construction.  What is proved here: the world-level evaluator
    has exactly two outcomes - a std::exception, or a vector of the announced size - and the vector is
    finite entry by entry as soon as the background values are finite and every model maps finite blocks
    to finite blocks.  Not a theorem: that each arithmetic model does so for every input (overflow, 0/0 at
    degenerate locations) and the absence of undefined behaviour in the C++ - decided by the
    degenerate-location search of lib/c13.py (under ASan/UBSan in the thorough tier). *)
From Coq Require Import List.
From WB Require Import Num Base Props World WorldProofs WorldProofs2 TotalProofs.
Import ListNotations.

Section C13.
  Context {F : Type} {NF : Num F}.
  Definition finite (x : F) : Prop := fisfinite x = true.

  Theorem C13_total_and_finite : forall (w : world) pos depth ps t,
    world_ok w -> finite f0 -> finite (fopp f1) -> finite (w_Ts w) -> finite (adiabat w (w_gravity w) depth) ->
    Forall (feature_preserves finite) (w_features w) ->
    properties3d w pos depth ps t = Err Throw \/
    exists out t', properties3d w pos depth ps t = Ok (out, t') /\ Forall finite out /\ length out = output_size ps.
  Proof. intros w pos depth ps t. exact (properties3d_total_and_preserving finite w pos depth ps t). Qed.

  (** the 2-D interface fails only by an exception as well (no cross section, or the 3-D query throws) *)
  Theorem C13_2d_outcomes : forall (w : world) p depth ps t,
    world_ok w ->
    properties2d w p depth ps t = Err Throw \/ exists out t', properties2d w p depth ps t = Ok (out, t').
  Proof.
    intros w p depth ps t WO. unfold properties2d. destruct (w_cross w) as [cs|]; [|left; reflexivity].
    unfold properties3d, properties_at. cbn [mk_query q_depth q_g].
    destruct (init_from w (w_gravity w) depth ps []) as [out0 regs].
    match goal with |- context [if ?c then _ else _] => destruct c end; [left; reflexivity|].
    destruct (fold_left _ _ _) as [r t']. right. eexists. eexists. reflexivity.
  Qed.
End C13.

Print Assumptions C13_total_and_finite.
Print Assumptions C13_2d_outcomes.
