(** * Base: result type and flat-vector utilities (slice / blit) with lemmas. *)
From Coq Require Import List Arith Lia Bool.
Import ListNotations.

Inductive err := Throw | OOB | Fuel.
Inductive res (A : Type) := Ok (a : A) | Err (e : err).
Arguments Ok {A} a.
Arguments Err {A} e.

Definition rbind {A B} (x : res A) (f : A -> res B) : res B :=
  match x with Ok a => f a | Err e => Err e end.
Definition rmap {A B} (f : A -> B) (x : res A) : res B :=
  match x with Ok a => Ok (f a) | Err e => Err e end.

Section Vec.
  Context {A : Type}.

  Definition slice (off n : nat) (l : list A) : list A := firstn n (skipn off l).

  (** [blit off b l] overwrites [l] at positions [off .. off + length b)].  It is
      total; that every write of the model is in range is a separate theorem. *)
  Definition blit (off : nat) (b l : list A) : list A :=
    firstn off l ++ b ++ skipn (off + length b) l.

  Lemma skipn_skipn' : forall (x y : nat) (l : list A), skipn x (skipn y l) = skipn (y + x) l.
  Proof.
    intros x y. induction y as [|y IH]; intros l; [reflexivity|].
    destruct l as [|a l]; [now rewrite !skipn_nil|]. cbn [skipn Nat.add]. apply IH.
  Qed.

  Lemma blit_length off b l : off + length b <= length l -> length (blit off b l) = length l.
  Proof.
    intros H. unfold blit. rewrite !app_length, firstn_length, skipn_length. lia.
  Qed.

  Lemma slice_length off n l : off + n <= length l -> length (slice off n l) = n.
  Proof. intros H. unfold slice. rewrite firstn_length, skipn_length. lia. Qed.

  Lemma slice_blit_same off b l :
    off + length b <= length l -> slice off (length b) (blit off b l) = b.
  Proof.
    intros H. unfold slice, blit.
    rewrite skipn_app, firstn_length, Nat.min_l by lia.
    rewrite skipn_all2 by (rewrite firstn_length; lia).
    replace (off - off) with 0 by lia. cbn [skipn app].
    rewrite firstn_app, Nat.sub_diag, firstn_all. cbn [firstn]. apply app_nil_r.
  Qed.

  Lemma firstn_blit_lo n off b l : n <= off -> off <= length l -> firstn n (blit off b l) = firstn n l.
  Proof.
    intros H Hl. unfold blit. rewrite firstn_app, firstn_firstn, firstn_length.
    rewrite (Nat.min_l n off) by lia. rewrite (Nat.min_l off (length l)) by lia.
    replace (n - off) with 0 by lia. cbn [firstn]. apply app_nil_r.
  Qed.

  Lemma skipn_blit_hi n off b l :
    off + length b <= n -> off + length b <= length l -> skipn n (blit off b l) = skipn n l.
  Proof.
    intros H Hl. unfold blit.
    rewrite skipn_app, firstn_length, (Nat.min_l off (length l)) by lia.
    rewrite (skipn_all2 (firstn off l)) by (rewrite firstn_length; lia). cbn [app].
    rewrite skipn_app.
    rewrite (skipn_all2 b) by lia. cbn [app].
    rewrite skipn_skipn'. f_equal. lia.
  Qed.

  (** A block that lies entirely before or entirely after the written block is untouched. *)
  Lemma slice_blit_other off' n off b l :
    off + length b <= length l ->
    off' + n <= off \/ off + length b <= off' ->
    slice off' n (blit off b l) = slice off' n l.
  Proof.
    intros Hl [H|H]; unfold slice.
    - rewrite <- (firstn_skipn off' (blit off b l)) at 1.
      assert (E : forall m : list A, firstn n (skipn off' m) = skipn off' (firstn (off' + n) m)).
      { intros m. rewrite skipn_firstn_comm. f_equal. lia. }
      rewrite firstn_skipn. rewrite !E. f_equal. apply firstn_blit_lo; lia.
    - f_equal. apply skipn_blit_hi; lia.
  Qed.

  Lemma blit_slice_id off n l : off + n <= length l -> blit off (slice off n l) l = l.
  Proof.
    intros H. unfold blit. rewrite slice_length by exact H. unfold slice.
    rewrite <- (firstn_skipn off l) at 4. f_equal.
    rewrite <- (firstn_skipn n (skipn off l)) at 2. f_equal.
    rewrite skipn_skipn'. f_equal; lia.
  Qed.
End Vec.
