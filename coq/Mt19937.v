(** * Mt19937: the random number engine of World (std::mt19937) and the way uniform_real_distribution<double>
    turns two 32-bit outputs into a number of [0,1) (libstdc++ generate_canonical<double,53>), on unbounded N with
    the 32-bit wrap written out.  world.cc: random_number_engine.seed(seed); features draw with
    std::uniform_real_distribution<>(a,b)(engine) = canonical * (b - a) + a. *)
From Coq Require Import List NArith ZArith.
From WB Require Import Num.
Import ListNotations.
Local Open Scope N_scope.

Definition two32 : N := 4294967296.
Definition w32 (x : N) : N := x mod two32.

(** seeding: x0 = seed mod 2^32, x_i = 1812433253 * (x_{i-1} xor (x_{i-1} >> 30)) + i  (mod 2^32), i = 1..623 *)
Fixpoint mt_seed_from (n : nat) (i : N) (prev : N) : list N :=
  match n with
  | O => []
  | S n' => let x := w32 (1812433253 * N.lxor prev (N.shiftr prev 30) + i) in x :: mt_seed_from n' (i + 1) x
  end.
Definition mt_init (seed : N) : list N := let x0 := w32 seed in x0 :: mt_seed_from 623 1 x0.

(** the recurrence x_{k+624} = x_{k+397} xor twist(upper bit of x_k, lower 31 bits of x_{k+1}) *)
Definition mt_next (a b c : N) : N :=
  let y := N.lor (N.land a 2147483648) (N.land b 2147483647) in
  N.lxor (N.lxor c (N.shiftr y 1)) (if N.odd y then 2567483615 else 0).

Definition temper (y : N) : N :=
  let y1 := N.lxor y (N.shiftr y 11) in
  let y2 := N.lxor y1 (N.land (N.shiftl y1 7) 2636928640) in
  let y3 := N.lxor y2 (N.land (N.shiftl y2 15) 4022730752) in
  N.lxor y3 (N.shiftr y3 18).

(** [window] holds x_k .. x_{k+623}; every step emits the tempered x_{k+624} *)
Fixpoint mt_run (n : nat) (window : list N) : list N :=
  match n with
  | O => []
  | S n' =>
      let x := mt_next (nth 0 window 0) (nth 1 window 0) (nth 397 window 0) in
      temper x :: mt_run n' (tl window ++ [x])
  end.

Definition mt_outputs (seed : N) (n : nat) : list N := mt_run n (mt_init seed).

Section Canonical.
  Context {F : Type} {NF : Num F}.
  Local Open Scope num_scope.
  (** generate_canonical<double,53> on a 32-bit engine: two outputs, sum = e0 + e1 * 2^32, divided by 2^64; a sum that
      rounds up to 2^64 is replaced by the largest double below 1 *)
  Definition canonical (e0 e1 : N) : F :=
    let r := fofZ 4294967296 in
    let sum := fofZ (Z.of_N e0) + fofZ (Z.of_N e1) * r in
    let u := sum / (r * r) in
    if f1 <=? u then f1 - feps * fhalf else u.

  Fixpoint pair_up (l : list N) : list F :=
    match l with
    | e0 :: e1 :: r => canonical e0 e1 :: pair_up r
    | _ => []
    end.

  (** the first [n] draws of uniform_real_distribution<>(0,1) for a seed *)
  Definition mt_tape_list (seed : N) (n : nat) : list F := pair_up (mt_outputs seed (n + n)).
End Canonical.
