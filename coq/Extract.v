(** Extraction of the executable model.  [ExtrOcamlBasic] only: no [Extract Constant] /
    [Extract Inductive] of our own; numbers stay abstract behind the [Num] dictionary.
    Run from the directory that should receive model.ml / model.mli. *)
From Coq Require Import ExtrOcamlBasic.
From Coq Require Import List NArith ZArith.
From WB Require Import Num Base Props World Kernels Features Plume Bezier Apps Dat Grid SphereGrid Validate Mt19937 SlabSpec SlabModel SlabFeature BezierSph Quat.

Extraction Language OCaml.
Extraction "model.ml"
  fmin fmax
  decode width output_size offsets
  properties3d properties2d temperature3d composition3d grains3d temperature2d composition2d grains2d
  cross_dir map2d cartesian_to_spherical spherical_to_cartesian great_circle_distance
  approx merge_values values_min values_max polygon_contains polygon_contains_impl find_closest_points surface_local_value in_triangle
  area_to_feature plume_to_feature plume_rel_distance
  bezier_build bezier_eval closest_point_cartesian closest_point_spherical
  cells2 cells3 cells_chunk2 cells_annulus filter_mesh
  sphere_nodes sphere_cells sphere_dups targets_ok n_kept
  doc_ok group_velocities
  mt_outputs mt_tape_list
  planar_distance slab_member fault_member
  distance_point_from_curved_planes line_to_feature lf_distances lf_covers line_of_layout line_of_layout_gen distance_point_from_curved_planes_sph
  euler_matrix
  parallel_for dat_options_of dat_properties dat_header dat_row dat_row_accepted col_cell.
