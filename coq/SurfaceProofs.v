(** * SurfaceProofs: barycentric interpolation (in_triangle) over exact reals, and the merge of
      corner defaults with listed points. *)
From Coq Require Import Reals Lra Lia List ZArith Bool Psatz.
From WB Require Import Num Base RNum Kernels.
Import ListNotations.
Local Open Scope R_scope.

Section SP.
  Variable sp : special.
  Local Existing Instance Rnum.
  Let N := Rnum sp.

  (** the value computed by [in_triangle] when it accepts the point *)
  Definition tri_det (t : @tri R) : R :=
    let '((x0, y0, _), (x1, y1, _), (x2, y2, _)) := t in
    (x1 - x0) * (y2 - y0) - (x2 - x0) * (y1 - y0).

  Definition bary_s (t : @tri R) (p : R * R) : R :=
    let '((x0, y0, _), (x1, y1, _), (x2, y2, _)) := t in
    ((fst p - x0) * (y2 - y0) - (x2 - x0) * (snd p - y0)) / tri_det t.
  Definition bary_t (t : @tri R) (p : R * R) : R :=
    let '((x0, y0, _), (x1, y1, _), (x2, y2, _)) := t in
    ((x1 - x0) * (snd p - y0) - (fst p - x0) * (y1 - y0)) / tri_det t.

  Lemma in_triangle_value (t : @tri R) p v :
    tri_det t <> 0 ->
    @in_triangle R N t p = Some v ->
    let '((_, _, v0), (_, _, v1), (_, _, v2)) := t in
    v = v0 * (1 - bary_s t p - bary_t t p) + v1 * bary_s t p + v2 * bary_t t p.
  Proof.
    destruct t as [[[[x0 y0] v0] [[x1 y1] v1]] [[x2 y2] v2]]. intros Hd.
    unfold in_triangle, tri_pre. cbn [nth].
    change (@fsub R N) with Rminus. change (@fmul R N) with Rmult. change (@fadd R N) with Rplus.
    change (@fdiv R N) with Rdiv. change (@fopp R N) with Ropp. change (@f1 R N) with 1.
    destruct (_ && _ && _); [|discriminate]. intros E. inversion E; subst v. clear E.
    unfold bary_s, bary_t, tri_det in *. cbn [fst snd] in *. field. exact Hd.
  Qed.

  (** completeness of the point-in-triangle test over exact reals: every point of a closed, positively oriented triangle is
      accepted (the tolerances are non-negative; the vertices are in the order the triangulation delivers them,
      clockwise in the surface coordinates: tri_det < 0), so a lookup inside the triangulated footprint never ends in
      "not in any triangle" for want of a tolerance *)
  Theorem in_triangle_complete (t : @tri R) (p : R * R) :
    tri_det t < 0 -> 0 <= bary_s t p -> 0 <= bary_t t p -> bary_s t p + bary_t t p <= 1 ->
    exists v, @in_triangle R N t p = Some v.
  Proof.
    destruct t as [[[[x0 y0] v0] [[x1 y1] v1]] [[x2 y2] v2]]. destruct p as [px py].
    unfold bary_s, bary_t. unfold tri_det. cbn [fst snd]. intros Hd Hs Ht Hst.
    set (D := (x1 - x0) * (y2 - y0) - (x2 - x0) * (y1 - y0)) in *.
    set (S := (px - x0) * (y2 - y0) - (x2 - x0) * (py - y0)) in *.
    set (T := (x1 - x0) * (py - y0) - (px - x0) * (y1 - y0)) in *.
    assert (ID : / D < 0) by (apply Rinv_lt_0_compat; exact Hd).
    assert (HS : S <= 0). { unfold Rdiv in Hs. destruct (Rle_lt_dec S 0) as [L|L]; [exact L|]. exfalso. assert (0 < - (S * / D)) by (replace (- (S * / D)) with (S * - / D) by ring; apply Rmult_lt_0_compat; lra). lra. }
    assert (HT : T <= 0). { unfold Rdiv in Ht. destruct (Rle_lt_dec T 0) as [L|L]; [exact L|]. exfalso. assert (0 < - (T * / D)) by (replace (- (T * / D)) with (T * - / D) by ring; apply Rmult_lt_0_compat; lra). lra. }
    assert (HST : D <= S + T).
    { assert (X : (S + T) * / D <= 1) by (replace ((S + T) * / D) with (S / D + T / D) by (unfold Rdiv; ring); exact Hst).
      assert (Y : D * / D = 1) by (apply Rinv_r; lra).
      destruct (Rle_lt_dec D (S + T)) as [L|L]; [exact L|]. exfalso.
      assert (0 < (S + T) * / D - D * / D) by (replace ((S + T) * / D - D * / D) with ((D - (S + T)) * - / D) by ring; apply Rmult_lt_0_compat; lra). lra. }
    unfold in_triangle, tri_pre. cbn [nth fst snd].
    change (@fsub R N) with Rminus. change (@fmul R N) with Rmult. change (@fadd R N) with Rplus.
    change (@fdiv R N) with Rdiv. change (@fopp R N) with Ropp. change (@f1 R N) with 1.
    change (@fabs R N) with Rabs. change (@fle R N) with Rleb.
    set (rel := @fdec R N 1 4 * @feps R N).
    assert (Hrel : 0 <= rel).
    { unfold rel. change (@fdec R N 1 4) with (IZR 1 * powerRZ 10 4). change (@feps R N) with (powerRZ 2 (-52)).
      apply Rmult_le_pos; [rewrite Rmult_1_l; left; apply powerRZ_lt; lra | left; apply powerRZ_lt; lra]. }
    set (P6 := - (- y1 * x2 + y0 * (- x1 + x2) + x0 * (y1 - y2) + x1 * y2)).
    assert (ED : P6 = - D) by (unfold P6, D; ring).
    match goal with |- context [Rleb (- ?a) ?b && Rleb (- ?c) ?d && _] =>
      set (tolS := a); set (sna := b); set (tolT := c); set (tna := d) end.
    assert (TS : 0 <= tolS) by (unfold tolS; apply Rmult_le_pos; [exact Hrel|]; repeat apply Rplus_le_le_0_compat; apply Rabs_pos).
    assert (TT : 0 <= tolT) by (unfold tolT; apply Rmult_le_pos; [exact Hrel|]; repeat apply Rplus_le_le_0_compat; apply Rabs_pos).
    assert (E1 : sna = - S) by (unfold sna, S; ring).
    assert (E2 : tna = - T) by (unfold tna, T; ring).
    assert (DR : 0 <= P6 * rel) by (rewrite ED; apply Rmult_le_pos; lra).
    destruct (Rleb_spec (- tolS) sna) as [A|A]; [|exfalso; apply A; lra].
    destruct (Rleb_spec (- tolT) tna) as [B|B]; [|exfalso; apply B; lra].
    destruct (Rleb_spec (sna + tna - P6) (tolS + tolT + P6 * rel)) as [C|C]; [|exfalso; apply C; lra].
    cbn [andb]. eexists. reflexivity.
  Qed.

  (** bounded: inside the triangle the value lies between the smallest and largest nodal value *)
  Theorem interpolation_bounded v0 v1 v2 s t lo hi :
    0 <= s -> 0 <= t -> s + t <= 1 ->
    lo <= v0 <= hi -> lo <= v1 <= hi -> lo <= v2 <= hi ->
    lo <= v0 * (1 - s - t) + v1 * s + v2 * t <= hi.
  Proof. intros. split; nra. Qed.

  (** nodal: at the three vertices the value is the nodal value *)
  Theorem interpolation_nodal (t : @tri R) :
    tri_det t <> 0 ->
    let '((x0, y0, _), (x1, y1, _), (x2, y2, _)) := t in
    (bary_s t (x0, y0) = 0 /\ bary_t t (x0, y0) = 0) /\
    (bary_s t (x1, y1) = 1 /\ bary_t t (x1, y1) = 0) /\
    (bary_s t (x2, y2) = 0 /\ bary_t t (x2, y2) = 1).
  Proof.
    destruct t as [[[[x0 y0] v0] [[x1 y1] v1]] [[x2 y2] v2]]. intros Hd.
    unfold bary_s, bary_t, tri_det in *. cbn [fst snd] in *.
    repeat split; field; exact Hd.
  Qed.

  (** affine exactness: if the three nodal values are samples of one affine function, the value is
      that function at the query point - for every non-degenerate triangle, hence whatever
      triangulation was chosen *)
  Theorem interpolation_affine (t : @tri R) p A B C v :
    tri_det t <> 0 ->
    (let '((x0, y0, v0), (x1, y1, v1), (x2, y2, v2)) := t in
     v0 = A * x0 + B * y0 + C /\ v1 = A * x1 + B * y1 + C /\ v2 = A * x2 + B * y2 + C) ->
    @in_triangle R N t p = Some v ->
    v = A * fst p + B * snd p + C.
  Proof.
    intros Hd Haff E. pose proof (in_triangle_value t p v Hd E) as V.
    destruct t as [[[[x0 y0] v0] [[x1 y1] v1]] [[x2 y2] v2]]. destruct Haff as (-> & -> & ->).
    rewrite V. unfold bary_s, bary_t, tri_det in *. cbn [fst snd] in *. field. exact Hd.
  Qed.

  (** ** merge of corner defaults and listed points *)
  (** exact regime of the merge: [approx] identifies a point with itself and with no other point
      among those that occur *)
  Definition approx_is_eq (ps : list (R * R)) : Prop :=
    forall a b, In a ps -> In b ps ->
      (@approx R N (fst a) (fst b) && @approx R N (snd a) (snd b) = true <-> a = b).

  Lemma find_same_spec acc p :
    forall i, match @find_same R N acc p i with
              | Some j => (i <= j < i + length acc)%nat /\
                          (let q := snd (nth (j - i) acc (0, (0, 0))) in @approx R N (fst q) (fst p) && @approx R N (snd q) (snd p) = true) /\
                          (forall k, (k < j - i)%nat -> let q := snd (nth k acc (0, (0, 0))) in @approx R N (fst q) (fst p) && @approx R N (snd q) (snd p) = false)
              | None => forall k, (k < length acc)%nat -> let q := snd (nth k acc (0, (0, 0))) in @approx R N (fst q) (fst p) && @approx R N (snd q) (snd p) = false
              end.
  Proof.
    induction acc as [|[v q] r IH]; intros i; cbn [find_same].
    - intros k Hk. cbn in Hk. lia.
    - destruct (@approx R N (fst q) (fst p) && @approx R N (snd q) (snd p)) eqn:E.
      + cbn [length]. split; [lia|]. rewrite Nat.sub_diag. cbn [nth snd]. split; [exact E|]. intros k Hk. lia.
      + specialize (IH (S i)). destruct (find_same r p (S i)) as [j|].
        * destruct IH as (I1 & I2 & I3). cbn [length]. split; [lia|].
          replace (j - i)%nat with (S (j - S i)) by lia. cbn [nth]. split; [exact I2|].
          intros [|k] Hk; cbn [nth snd]; [exact E|]. apply I3. lia.
        * intros [|k] Hk; cbn [nth snd]; [exact E|]. apply IH. cbn [length] in Hk. lia.
  Qed.

  (** after merging one listed point with value [v], that point carries [v] (it is either updated
      in place or appended), and every other point keeps its value *)
  Theorem merge_point_sets_value acc p v :
    (forall a, In a (map snd acc) -> (@approx R N (fst a) (fst p) && @approx R N (snd a) (snd p) = true <-> a = p)) ->
    In (v, p) (@merge_point R N v acc p) /\
    (forall w q, q <> p -> In (w, q) acc -> In (w, q) (@merge_point R N v acc p)).
  Proof.
    intros Hex. unfold merge_point. pose proof (find_same_spec acc p 0) as S.
    destruct (find_same acc p 0) as [j|].
    - destruct S as (S1 & S2 & _). rewrite Nat.sub_0_r in S2. cbn zeta in S2.
      assert (Hj : (j < length acc)%nat) by (destruct S1 as [_ S1]; exact S1).
      assert (Hq : snd (nth j acc (0, (0, 0))) = p).
      { apply Hex; [|exact S2]. apply in_map. apply nth_In. exact Hj. }
      clear S1 S2 Hex. revert j Hj Hq. induction acc as [|[w q] r IH]; intros j Hj Hq; [cbn in Hj; lia|].
      destruct j as [|j]; cbn [set_value nth snd] in *.
      + subst q. split; [left; reflexivity|]. intros w' q' Hne [E|I]; [inversion E; subst; congruence|right; exact I].
      + destruct (IH j ltac:(cbn [length] in Hj; lia) Hq) as [A B]. split; [right; exact A|].
        intros w' q' Hne [E|I]; [left; exact E|right; apply B; assumption].
    - split; [apply in_or_app; right; left; reflexivity|]. intros w q _ I. apply in_or_app; left; exact I.
  Qed.
End SP.
