(** * SlabSpec: the elementary planar construction of a slab / fault surface (property C06).

    In the vertical plane perpendicular to a straight trench, with [u] the horizontal offset towards
    the dip point and [v] the depth below the feature's min depth, the surface starts at the origin
    and follows, piece after piece, a straight line (equal top and bottom dip) or a circular arc (dip
    varying linearly with arclength).  [planar_chain] returns the signed distance below the surface,
    the arclength of the foot, the piece and the fraction of the piece.

    This is the *specification*: it is executable (extracted and compared with the implementation by
    lib/c06.py) and SlabSpecProofs.v proves over the reals that it is the signed normal distance and
    the arclength of the nearest point of the line / arc. *)
From Coq Require Import ZArith List Bool.
From WB Require Import Num.
Import ListNotations.

Section SlabSpec.
  Context {F : Type} {NF : Num F}.
  Local Open Scope num_scope.

  Record piece := { pc_len : F; pc_top : F; pc_bot : F }.

  (** unit normal pointing below a surface that dips with angle [th] *)
  Definition nrm_x (th : F) : F := - fsin th.
  Definition nrm_y (th : F) : F := fcos th.

  Record piece_eval := { pe_ok : bool; pe_dist : F; pe_along : F; pe_ex : F; pe_ey : F }.

  Definition straight_eval (sx sy : F) (p : piece) (u v : F) : piece_eval :=
    let t := pc_top p in
    let dx := fcos t in let dy := fsin t in
    let al := (u - sx) * dx + (v - sy) * dy in
    let dist := (u - sx) * nrm_x t + (v - sy) * nrm_y t in
    {| pe_ok := (f0 <=? al) && (al <=? pc_len p); pe_dist := dist; pe_along := al;
       pe_ex := sx + pc_len p * dx; pe_ey := sy + pc_len p * dy |}.

  Definition arc_sgn (p : piece) : F := if pc_top p <? pc_bot p then f1 else - f1.
  Definition arc_radius (p : piece) : F := pc_len p / fabs (pc_bot p - pc_top p).
  Definition arc_cx (sx : F) (p : piece) : F := sx + arc_sgn p * arc_radius p * nrm_x (pc_top p).
  Definition arc_cy (sy : F) (p : piece) : F := sy + arc_sgn p * arc_radius p * nrm_y (pc_top p).
  (** the point of the arc whose tangent dips with angle [th] *)
  Definition arc_px (sx : F) (p : piece) (th : F) : F := arc_cx sx p - arc_sgn p * arc_radius p * nrm_x th.
  Definition arc_py (sy : F) (p : piece) (th : F) : F := arc_cy sy p - arc_sgn p * arc_radius p * nrm_y th.

  Definition arc_eval (sx sy : F) (p : piece) (u v : F) : piece_eval :=
    let sg := arc_sgn p in let R := arc_radius p in
    let wx := u - arc_cx sx p in let wy := v - arc_cy sy p in
    let rho := fsqrt (wx * wx + wy * wy) in
    let th0 := fatan2 (sg * wx) (- (sg * wy)) in
    let th := if th0 - pc_top p <? - fpi then th0 + f2 * fpi else th0 in
    let frac := (th - pc_top p) / (pc_bot p - pc_top p) in
    {| pe_ok := (f0 <=? frac) && (frac <=? f1); pe_dist := sg * (R - rho); pe_along := frac * pc_len p;
       pe_ex := arc_px sx p (pc_bot p); pe_ey := arc_py sy p (pc_bot p) |}.

  Definition is_straight (p : piece) : bool := fabs (pc_bot p - pc_top p) <? fdec 1 (-9).

  Definition eval_piece (sx sy : F) (p : piece) (u v : F) : piece_eval :=
    if is_straight p then straight_eval sx sy p u v else arc_eval sx sy p u v.

  (** best so far: distance, total arclength, piece index, fraction of the piece *)
  Definition better (e : piece_eval) (best : option (F * F * nat * F)) : bool :=
    pe_ok e && match best with None => true | Some (d, _, _, _) => fabs (pe_dist e) <? fabs d end.

  Fixpoint planar_chain (ps : list piece) (sx sy done : F) (k : nat) (u v : F)
           (best : option (F * F * nat * F)) : option (F * F * nat * F) :=
    match ps with
    | [] => best
    | p :: rest =>
        let e := eval_piece sx sy p u v in
        let best' := if better e best then Some (pe_dist e, done + pe_along e, k, pe_along e / pc_len p) else best in
        planar_chain rest (pe_ex e) (pe_ey e) (done + pc_len p) (S k) u v best'
    end.

  Definition planar_distance (ps : list piece) (u v : F) : option (F * F * nat * F) :=
    planar_chain ps f0 f0 f0 O u v None.

  (** the four membership clauses of the property *)
  Definition slab_member (dist along trunc thick total depth mind maxd : F) (foot_inside : bool) : bool :=
    (trunc <=? dist) && (dist <=? thick) && (f0 <=? along) && (along <=? total) && foot_inside
    && (mind <=? depth) && (depth <=? maxd).
  Definition fault_member (dist along thick total depth mind maxd : F) (foot_inside : bool) : bool :=
    (fabs dist <=? thick * fhalf) && (f0 <? along) && (along <=? total) && foot_inside
    && (mind <=? depth) && (depth <=? maxd).
End SlabSpec.
