(** * GridProofs: index theorems for the Cartesian grids (lia / nia). *)
From Coq Require Import List Arith Lia PeanoNat Bool ZArith.
From WB Require Import Grid.
Import ListNotations.
Local Open Scope nat_scope.

Lemma length_flat_map_const {A B} (f : A -> list B) k l :
  (forall x, In x l -> length (f x) = k) -> length (flat_map f l) = length l * k.
Proof.
  induction l as [|a l IH]; intros H; [reflexivity|]. cbn [flat_map length].
  rewrite app_length, (H a (or_introl eq_refl)), IH; [lia|]. intros x Hx. apply H. right; exact Hx.
Qed.

Theorem nodes3_count nx ny nz : length (nodes3 nx ny nz) = np3 nx ny nz.
Proof.
  unfold nodes3, np3. rewrite (length_flat_map_const _ ((ny + 1) * (nz + 1))).
  - rewrite seq_length. lia.
  - intros i _. rewrite (length_flat_map_const _ (nz + 1)); [now rewrite seq_length|].
    intros j _. now rewrite map_length, seq_length.
Qed.

Theorem cells3_count nx ny nz : length (cells3 nx ny nz) = ncell3 nx ny nz.
Proof.
  unfold cells3, ncell3. rewrite (length_flat_map_const _ (ny * nz)).
  - rewrite seq_length. lia.
  - intros i _. rewrite (length_flat_map_const _ nz); [now rewrite seq_length|].
    intros j _. now rewrite map_length, seq_length.
Qed.

(** the storage position of node (i,j,k) is [node3 ny nz i j k] *)
Lemma nth_flat_map_const {A B} (f : A -> list B) k (l : list A) (d : B) (a0 : A) :
  (forall x, length (f x) = k) -> forall q r, r < k -> q < length l ->
  nth (q * k + r) (flat_map f l) d = nth r (f (nth q l a0)) d.
Proof.
  intros H. induction l as [|a l IH]; intros q r Hr Hq; [cbn in Hq; lia|].
  cbn [flat_map]. destruct q as [|q].
  - cbn [Nat.mul Nat.add nth]. rewrite app_nth1 by (rewrite H; exact Hr). reflexivity.
  - rewrite app_nth2 by (rewrite H; nia). rewrite H.
    replace (S q * k + r - k) with (q * k + r) by nia. cbn [nth]. apply IH; [exact Hr|cbn [length] in Hq; lia].
Qed.

Theorem nodes3_order nx ny nz i j k : i <= nx -> j <= ny -> k <= nz ->
  nth (node3 ny nz i j k) (nodes3 nx ny nz) (0, 0, 0) = (i, j, k).
Proof.
  intros Hi Hj Hk. unfold node3, nodes3.
  replace ((ny + 1) * (nz + 1) * i + (nz + 1) * j + k) with (i * ((ny + 1) * (nz + 1)) + (j * (nz + 1) + k)) by lia.
  rewrite (nth_flat_map_const _ ((ny + 1) * (nz + 1)) _ _ 0).
  - rewrite seq_nth by lia. cbn [Nat.add].
    rewrite (nth_flat_map_const _ (nz + 1) _ _ 0).
    + rewrite seq_nth by lia. cbn [Nat.add].
      rewrite (map_nth (fun k0 => (i, j, k0)) (seq 0 (nz + 1)) 0 k) || idtac.
      change (0, 0, 0) with ((fun k0 => (0, 0, k0)) 0).
      erewrite nth_indep with (d' := (i, j, 0)); [|rewrite map_length, seq_length; lia].
      change (i, j, 0) with ((fun k0 => (i, j, k0)) 0). rewrite map_nth, seq_nth by lia. reflexivity.
    + intros x. now rewrite map_length, seq_length.
    + lia.
    + rewrite seq_length. lia.
  - intros x. rewrite (length_flat_map_const _ (nz + 1)); [now rewrite seq_length|].
    intros y _. now rewrite map_length, seq_length.
  - nia.
  - rewrite seq_length. lia.
Qed.

(** the eight entries of a cell are the eight corners of the lattice cell, and reference existing nodes *)
Theorem conn3_corners ny nz i j k : 1 <= i -> 1 <= j -> 1 <= k ->
  conn3 ny nz i j k =
  [ node3 ny nz (i - 1) (j - 1) (k - 1); node3 ny nz i (j - 1) (k - 1); node3 ny nz i j (k - 1); node3 ny nz (i - 1) j (k - 1);
    node3 ny nz (i - 1) (j - 1) k;       node3 ny nz i (j - 1) k;       node3 ny nz i j k;       node3 ny nz (i - 1) j k ].
Proof.
  intros Hi Hj Hk. unfold conn3, node3.
  repeat match goal with |- _ :: _ = _ :: _ => apply f_equal2; [nia|] end. reflexivity.
Qed.

Theorem conn3_in_range nx ny nz i j k v : 1 <= i <= nx -> 1 <= j <= ny -> 1 <= k <= nz ->
  In v (conn3 ny nz i j k) -> v < np3 nx ny nz.
Proof.
  intros Hi Hj Hk Hv. unfold conn3 in Hv. unfold np3.
  assert (B : forall a b c, a <= nx -> b <= ny -> c <= nz -> (ny + 1) * (nz + 1) * a + (nz + 1) * b + c < (nx + 1) * (nz + 1) * (ny + 1)) by (intros; nia).
  cbn [In] in Hv.
  repeat (destruct Hv as [Hv|Hv]; [subst v|]); try contradiction.
  - pose proof (B (i - 1) (j - 1) (k - 1)). lia.
  - pose proof (B i (j - 1) (k - 1)). lia.
  - pose proof (B i j (k - 1)). lia.
  - pose proof (B (i - 1) j (k - 1)). lia.
  - pose proof (B (i - 1) (j - 1) k). lia.
  - pose proof (B i (j - 1) k). lia.
  - pose proof (B i j k). lia.
  - pose proof (B (i - 1) j k). lia.
Qed.

(** 2-D *)
Theorem nodes2_count nx nz : length (nodes2 nx nz) = np2 nx nz.
Proof.
  unfold nodes2, np2. rewrite (length_flat_map_const _ (nx + 1)).
  - rewrite seq_length. lia.
  - intros j _. now rewrite map_length, seq_length.
Qed.

Theorem cells2_count nx nz : length (cells2 nx nz) = nx * nz.
Proof.
  unfold cells2. rewrite (length_flat_map_const _ nx).
  - rewrite seq_length. lia.
  - intros j _. now rewrite map_length, seq_length.
Qed.

Theorem conn2_corners nx i j : 1 <= i -> 1 <= j ->
  conn2 nx i j = [ node2 nx (i - 1) (j - 1); node2 nx i (j - 1); node2 nx i j; node2 nx (i - 1) j ].
Proof.
  intros Hi Hj. unfold conn2, node2.
  repeat match goal with |- _ :: _ = _ :: _ => apply f_equal2; [nia|] end. reflexivity.
Qed.

Theorem conn2_in_range nx nz i j v : 1 <= i <= nx -> 1 <= j <= nz -> In v (conn2 nx i j) -> v < np2 nx nz.
Proof.
  intros Hi Hj Hv. rewrite conn2_corners in Hv by lia. unfold node2, np2 in *. cbn [In] in Hv.
  assert (B : forall a b, a <= nx -> b <= nz -> b * (nx + 1) + a < (nx + 1) * (nz + 1)).
  { intros a b Ha Hb. pose proof (Nat.mul_le_mono_r b nz nx Hb). lia. }
  repeat (destruct Hv as [Hv|Hv]; [subst v; apply B; lia|]). contradiction.
Qed.

(** ** 2-D chunk grid *)
Theorem cells_chunk2_count nx nz : length (cells_chunk2 nx nz) = nx * nz.
Proof.
  unfold cells_chunk2. rewrite (length_flat_map_const _ nz).
  - rewrite seq_length. lia.
  - intros i _. now rewrite map_length, seq_length.
Qed.

Theorem nodes_chunk2_count nx nz : length (nodes_chunk2 nx nz) = (nx + 1) * (nz + 1).
Proof.
  unfold nodes_chunk2. rewrite (length_flat_map_const _ (nz + 1)).
  - rewrite seq_length. lia.
  - intros i _. now rewrite map_length, seq_length.
Qed.

Theorem nodes_chunk2_order nx nz i j : i <= nx -> j <= nz ->
  nth (cnode2 nz i j) (nodes_chunk2 nx nz) (0, 0) = (i, j).
Proof.
  intros Hi Hj. unfold nodes_chunk2, cnode2. replace ((nz + 1) * i + j) with (i * (nz + 1) + j) by lia.
  rewrite (nth_flat_map_const _ (nz + 1) _ _ 0).
  - rewrite seq_nth by lia. cbn [Nat.add].
    rewrite (nth_indep _ (0, 0) ((fun j0 => (i, j0)) 0)) by (rewrite map_length, seq_length; lia).
    rewrite map_nth, seq_nth by lia. reflexivity.
  - intros x. now rewrite map_length, seq_length.
  - lia.
  - rewrite seq_length. lia.
Qed.

Theorem conn_chunk2_corners nz i j : 1 <= i -> 1 <= j ->
  conn_chunk2 nz i j = [ cnode2 nz (i - 1) (j - 1); cnode2 nz (i - 1) j; cnode2 nz i j; cnode2 nz i (j - 1) ].
Proof.
  intros Hi Hj. unfold conn_chunk2, cnode2.
  repeat match goal with |- _ :: _ = _ :: _ => apply f_equal2; [nia|] end. reflexivity.
Qed.

Theorem conn_chunk2_in_range nx nz i j v : 1 <= i <= nx -> 1 <= j <= nz -> In v (conn_chunk2 nz i j) -> v < (nx + 1) * (nz + 1).
Proof.
  intros Hi Hj Hv. rewrite conn_chunk2_corners in Hv by lia. unfold cnode2 in *. cbn [In] in Hv.
  assert (B : forall a b, a <= nx -> b <= nz -> (nz + 1) * a + b < (nx + 1) * (nz + 1)).
  { intros a b Ha Hb. pose proof (Nat.mul_le_mono_l a nx (nz + 1) Ha). lia. }
  repeat (destruct Hv as [Hv|Hv]; [subst v; apply B; lia|]). contradiction.
Qed.

(** ** annulus *)
Theorem cells_annulus_count nt nz : length (cells_annulus nt nz) = nt * nz.
Proof.
  unfold cells_annulus. rewrite (length_flat_map_const _ nt).
  - rewrite seq_length. lia.
  - intros j _. now rewrite map_length, seq_length.
Qed.

Theorem nodes_annulus_count nt nz : length (nodes_annulus nt nz) = nt * (nz + 1).
Proof.
  unfold nodes_annulus. rewrite (length_flat_map_const _ nt).
  - rewrite seq_length. lia.
  - intros j _. now rewrite map_length, seq_length.
Qed.

(** the four corners of cell (i,j): the nodes i and its successor around the ring (node 1 after node nt) on the
    rings j-1 and j *)
Theorem conn_annulus_corners nt i j : 1 <= i <= nt -> 1 <= j ->
  conn_annulus nt i j = [ anode nt (awrap nt i) (j - 1); anode nt i (j - 1); anode nt i j; anode nt (awrap nt i) j ].
Proof.
  intros Hi Hj. unfold conn_annulus, anode, awrap. cbn zeta.
  destruct (Nat.eqb_spec i nt) as [E|E].
  - subst i. repeat match goal with |- _ :: _ = _ :: _ => apply f_equal2; [nia|] end. reflexivity.
  - repeat match goal with |- _ :: _ = _ :: _ => apply f_equal2; [nia|] end. reflexivity.
Qed.

Lemma awrap_range nt i : 1 <= i <= nt -> 1 <= awrap nt i <= nt.
Proof. intros H. unfold awrap. destruct (Nat.eqb_spec i nt); lia. Qed.

Theorem conn_annulus_in_range nt nz i j v : 1 <= i <= nt -> 1 <= j <= nz -> In v (conn_annulus nt i j) -> v < nt * (nz + 1).
Proof.
  intros Hi Hj Hv. rewrite conn_annulus_corners in Hv by lia. pose proof (awrap_range nt i Hi) as W.
  unfold anode in *. cbn [In] in Hv.
  assert (B : forall a b, 1 <= a <= nt -> b <= nz -> b * nt + (a - 1) < nt * (nz + 1)).
  { intros a b Ha Hb. pose proof (Nat.mul_le_mono_r b nz nt Hb). lia. }
  repeat (destruct Hv as [Hv|Hv]; [subst v; apply B; lia|]). contradiction.
Qed.

(** the ring closes: the last cell of ring j and the first cell of ring j share an edge (the two nodes i = 1) *)
Theorem annulus_ring_closes nt j : 1 <= nt -> 1 <= j ->
  nth 0 (conn_annulus nt nt j) 0 = nth 1 (conn_annulus nt 1 j) 0 /\
  nth 3 (conn_annulus nt nt j) 0 = nth 2 (conn_annulus nt 1 j) 0.
Proof.
  intros Hn Hj. rewrite !conn_annulus_corners by lia. unfold awrap. rewrite Nat.eqb_refl. cbn [nth]. split; reflexivity.
Qed.

(** ** the filter keeps exactly the selected cells, and writes one offset per kept cell *)
Lemma filter_cells_count nvert include tags cells : forall st,
  fs_cells (fold_left (filter_cell nvert include tags) cells st) =
  fs_cells st + length (filter (keep_cell include tags) cells).
Proof.
  induction cells as [|c cells IH]; intros st; cbn [fold_left filter length]; [lia|].
  rewrite IH. unfold filter_cell. destruct (keep_cell include tags c); cbn [length fs_cells]; [|lia].
  assert (V : forall l s, fs_cells (fold_left visit_vertex l s) = fs_cells s).
  { induction l as [|v l IHl]; intros s; [reflexivity|]. cbn [fold_left]. rewrite IHl. unfold visit_vertex.
    destruct (nth v (fs_map s) None); reflexivity. }
  rewrite V. lia.
Qed.

Theorem filter_keeps_selected nvert npoints include tags cells :
  fs_cells (filter_mesh nvert npoints include tags cells) = length (filter (keep_cell include tags) cells).
Proof. unfold filter_mesh. rewrite filter_cells_count. reflexivity. Qed.

Lemma visit_offsets l : forall s, fs_offsets (fold_left visit_vertex l s) = fs_offsets s.
Proof.
  induction l as [|v l IH]; intros s; [reflexivity|]. cbn [fold_left]. rewrite IH. unfold visit_vertex.
  destruct (nth v (fs_map s) None); reflexivity.
Qed.

Lemma visit_cells l : forall s, fs_cells (fold_left visit_vertex l s) = fs_cells s.
Proof.
  induction l as [|v l IH]; intros s; [reflexivity|]. cbn [fold_left]. rewrite IH. unfold visit_vertex.
  destruct (nth v (fs_map s) None); reflexivity.
Qed.

(** offsets are the multiples nvert, 2 nvert, ... one per kept cell *)
Theorem filter_offsets nvert npoints include tags cells :
  fs_offsets (filter_mesh nvert npoints include tags cells) =
  map (fun i => i * nvert) (seq 1 (length (filter (keep_cell include tags) cells))).
Proof.
  unfold filter_mesh.
  assert (G : forall cells st,
             fs_offsets (fold_left (filter_cell nvert include tags) cells st) =
             fs_offsets st ++ map (fun i => i * nvert) (seq (fs_cells st + 1) (length (filter (keep_cell include tags) cells)))).
  { clear cells. induction cells as [|c cells IH]; intros st; cbn [fold_left filter]; [now rewrite app_nil_r|].
    rewrite IH. unfold filter_cell. destruct (keep_cell include tags c); cbn [fs_offsets fs_cells length seq map]; [|reflexivity].
    rewrite visit_offsets, visit_cells, <- app_assoc. cbn [app].
    replace (fs_cells st + 1 + 1) with (S (fs_cells st + 1)) by lia. reflexivity. }
  rewrite G. reflexivity.
Qed.

(** every entry of the new connectivity refers to a copied vertex *)
Definition fs_ok (st : fstate) : Prop :=
  (forall v d, nth v (fs_map st) None = Some d -> d < length (fs_src st) /\ nth d (fs_src st) 0 = v) /\
  Forall (fun d => d < length (fs_src st)) (fs_conn st).

Lemma nth_set_nth_same {A} (l : list A) i v d : i < length l -> nth i (set_nth l i v) d = v.
Proof. revert i. induction l as [|x l IH]; intros [|i] H; cbn in *; try lia; auto. apply IH. lia. Qed.
Lemma nth_set_nth_other {A} (l : list A) i j v d : i <> j -> nth j (set_nth l i v) d = nth j l d.
Proof. revert i j. induction l as [|x l IH]; intros [|i] [|j] H; cbn; try reflexivity; try lia. apply IH. lia. Qed.

Lemma visit_ok st v : v < length (fs_map st) -> fs_ok st -> fs_ok (visit_vertex st v).
Proof.
  intros Hv [M C]. unfold visit_vertex. destruct (nth v (fs_map st) None) as [d|] eqn:E; unfold fs_ok; cbn [fs_map fs_src fs_conn].
  - split; [exact M|]. apply Forall_app. split; [exact C|]. constructor; [|constructor]. apply (M v d E).
  - split.
    + intros w d Hw. rewrite app_length. cbn [length]. destruct (Nat.eq_dec v w) as [->|Hne].
      * rewrite nth_set_nth_same in Hw by exact Hv. inversion Hw; subst d. split; [lia|].
        rewrite app_nth2 by lia. now rewrite Nat.sub_diag.
      * rewrite nth_set_nth_other in Hw by exact Hne. destruct (M w d Hw) as [A B]. split; [lia|]. now rewrite app_nth1.
    + apply Forall_app. split.
      * apply Forall_forall. intros a Ha. rewrite Forall_forall in C. specialize (C a Ha). cbn beta in C.
        rewrite app_length. cbn [length]. lia.
      * constructor; [|constructor]. rewrite app_length. cbn [length]. lia.
Qed.
