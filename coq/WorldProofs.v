(** * WorldProofs: structural theorems about the query evaluator, valid for every [Num] instance. *)
From Coq Require Import List Arith NArith Lia Bool.
From WB Require Import Num Base Props World.
Import ListNotations.

Section Proofs.
  Context {F : Type} {NF : Num F}.
  Notation feature := (@feature F).
  Notation world := (@world F).
  Notation query := (@query F).

  (** ** contracts of a feature *)
  (** painting a block keeps its length *)
  Definition paint_len (f : feature) : Prop :=
    forall q wt p t blk, length blk = width p -> length (fst (ft_paint f q wt p t blk)) = width p.
  (** the feature uses no random draws *)
  Definition no_random (f : feature) : Prop :=
    forall q wt p t blk, ft_paint f q wt p t blk = (fst (ft_paint f q wt p 0 blk), t).

  (** ** registered entries: in range, increasing, non-overlapping *)
  Fixpoint regs_good (n : nat) (regs : list (prop_req * nat)) : Prop :=
    match regs with
    | [] => True
    | pe :: r =>
        snd pe + width (fst pe) <= n /\
        Forall (fun pe' => snd pe + width (fst pe) <= snd pe') r /\ regs_good n r
    end.

  Lemma init_block_length w g d p : length (init_block w g d p) = width p.
  Proof. destruct p; cbn; try reflexivity. apply repeat_length. Qed.

  (** [init_from] in closed form *)
  Definition init_out (w : world) g d ps : list F := concat (map (init_block w g d) ps).
  Definition init_regs (w : world) d (s : nat) ps : list (prop_req * nat) :=
    filter (fun pe => registered w d (fst pe)) (combine ps (offsets_from s ps)).

  Lemma init_from_eq w g d ps : forall out,
    init_from w g d ps out = (out ++ init_out w g d ps, init_regs w d (length out) ps).
  Proof.
    induction ps as [|p ps IH]; intros out; cbn [init_from].
    - unfold init_out, init_regs; cbn. now rewrite app_nil_r.
    - rewrite IH. unfold init_out, init_regs. cbn [map concat offsets_from combine filter fst].
      rewrite app_length, init_block_length, <- app_assoc.
      destruct (registered w d p); reflexivity.
  Qed.

  Lemma init_out_length w g d ps : length (init_out w g d ps) = output_size ps.
  Proof.
    unfold init_out. induction ps as [|p ps IH]; [reflexivity|].
    cbn [map concat]. rewrite app_length, init_block_length, output_size_cons, IH. reflexivity.
  Qed.

  Lemma init_out_app w g d ps qs : init_out w g d (ps ++ qs) = init_out w g d ps ++ init_out w g d qs.
  Proof. unfold init_out. now rewrite map_app, concat_app. Qed.

  (** the i-th block of the initial vector is the initial block of the i-th request *)
  Lemma init_out_slice w g d ps i p :
    nth_error ps i = Some p ->
    slice (output_size (firstn i ps)) (width p) (init_out w g d ps) = init_block w g d p.
  Proof.
    intros H. destruct (nth_error_split _ _ H) as (l1 & l2 & -> & <-).
    rewrite firstn_app, Nat.sub_diag, firstn_all. cbn [firstn]. rewrite app_nil_r.
    rewrite init_out_app. unfold slice.
    rewrite skipn_app, init_out_length, Nat.sub_diag.
    rewrite skipn_all2 by (rewrite init_out_length; lia). cbn [skipn app].
    unfold init_out at 1. cbn [map concat].
    rewrite firstn_app, init_block_length, Nat.sub_diag. cbn [firstn]. rewrite app_nil_r.
    rewrite <- (init_block_length w g d p) at 1. apply firstn_all.
  Qed.

  Lemma regs_good_filter n (P : prop_req * nat -> bool) regs :
    regs_good n regs -> regs_good n (filter P regs).
  Proof.
    induction regs as [|pe r IH]; [trivial|]. cbn [regs_good filter].
    intros (H1 & H2 & H3). destruct (P pe); [|auto].
    cbn [regs_good]. repeat split; auto.
    clear - H2. induction H2 as [|x l Hx Hl IHl]; cbn; [constructor|].
    destruct (P x); auto.
  Qed.

  Lemma regs_good_combine ps : forall s,
    regs_good (s + output_size ps) (combine ps (offsets_from s ps)) /\
    Forall (fun pe' => s <= snd pe') (combine ps (offsets_from s ps)).
  Proof.
    induction ps as [|p ps IH]; intros s; cbn [offsets_from combine regs_good]; [split; [trivial|constructor]|].
    rewrite output_size_cons. destruct (IH (s + width p)) as [G L]. cbn [fst snd].
    repeat split.
    - lia.
    - exact L.
    - replace (s + (width p + output_size ps)) with (s + width p + output_size ps) by lia. exact G.
    - constructor; [cbn; lia|]. eapply Forall_impl; [|exact L]. cbn; intros; lia.
  Qed.

  Lemma init_regs_good w d ps : regs_good (output_size ps) (init_regs w d 0 ps).
  Proof. unfold init_regs. apply regs_good_filter. apply (regs_good_combine ps 0). Qed.

  (** ** blockwise updates *)
  (** [blockwise g regs out]: rewrite every registered block by [g] *)
  Definition blockwise (g : prop_req -> list F -> list F) (regs : list (prop_req * nat)) (out : list F) :=
    fold_left (fun o pe => blit (snd pe) (g (fst pe) (slice (snd pe) (width (fst pe)) o)) o) regs out.

  Lemma blockwise_cons g pe r out :
    blockwise g (pe :: r) out =
    blockwise g r (blit (snd pe) (g (fst pe) (slice (snd pe) (width (fst pe)) out)) out).
  Proof. reflexivity. Qed.

  Definition keeps_len (g : prop_req -> list F -> list F) : Prop :=
    forall p blk, length blk = width p -> length (g p blk) = width p.

  Lemma blockwise_length g regs : keeps_len g -> forall out,
    regs_good (length out) regs -> length (blockwise g regs out) = length out.
  Proof.
    intros Hg. induction regs as [|pe r IH]; intros out G; [reflexivity|].
    cbn [regs_good] in G. destruct G as (G1 & G2 & G3).
    rewrite blockwise_cons.
    assert (L : length (g (fst pe) (slice (snd pe) (width (fst pe)) out)) = width (fst pe)).
    { apply Hg, slice_length, G1. }
    rewrite IH; rewrite blit_length; rewrite ?L; auto.
  Qed.

  (** a block lying before all registered blocks, or not overlapping any of them, is untouched *)
  Lemma blockwise_other g regs : keeps_len g -> forall out off n,
    regs_good (length out) regs ->
    Forall (fun pe => off + n <= snd pe \/ snd pe + width (fst pe) <= off) regs ->
    slice off n (blockwise g regs out) = slice off n out.
  Proof.
    intros Hg. induction regs as [|pe r IH]; intros out off n G D; [reflexivity|].
    cbn [regs_good] in G. destruct G as (G1 & G2 & G3).
    inversion D as [|x l D1 D2]; subst.
    rewrite blockwise_cons.
    assert (L : length (g (fst pe) (slice (snd pe) (width (fst pe)) out)) = width (fst pe)).
    { apply Hg, slice_length, G1. }
    rewrite IH; [| rewrite blit_length; rewrite ?L; auto | exact D2].
    apply slice_blit_other; rewrite L; auto.
  Qed.

  Lemma blockwise_block g regs : keeps_len g -> forall out p off,
    regs_good (length out) regs -> In (p, off) regs ->
    slice off (width p) (blockwise g regs out) = g p (slice off (width p) out).
  Proof.
    intros Hg. induction regs as [|pe r IH]; intros out p off G I; [destruct I|].
    pose proof G as G'. cbn [regs_good] in G. destruct G as (G1 & G2 & G3).
    rewrite blockwise_cons.
    assert (L : length (g (fst pe) (slice (snd pe) (width (fst pe)) out)) = width (fst pe)).
    { apply Hg, slice_length, G1. }
    assert (G3' : regs_good (length (blit (snd pe) (g (fst pe) (slice (snd pe) (width (fst pe)) out)) out)) r).
    { rewrite blit_length; rewrite ?L; auto. }
    destruct I as [E|I].
    - subst pe. cbn [fst snd] in *.
      rewrite blockwise_other; [| exact Hg | exact G3' |].
      + rewrite <- L at 1. apply slice_blit_same. rewrite L; exact G1.
      + eapply Forall_impl; [|exact G2]. cbn; intros a Ha; left; exact Ha.
    - rewrite IH; [| exact G3' | exact I]. f_equal.
      apply slice_blit_other; rewrite L; [exact G1|].
      right. rewrite Forall_forall in G2. apply (G2 _ I).
  Qed.

  (** ** one feature is a blockwise update *)
  Definition paint0 (f : feature) (q : query) (wt : @wtemp F) : prop_req -> list F -> list F :=
    fun p blk => fst (ft_paint f q wt p 0 blk).

  Lemma paint0_keeps_len f q wt : paint_len f -> keeps_len (paint0 f q wt).
  Proof. intros H p blk L. apply H, L. Qed.

  Lemma feature_apply_blockwise f q wt regs : no_random f -> forall out t,
    fold_left (paint_slot f q wt) regs (out, t) = (blockwise (paint0 f q wt) regs out, t).
  Proof.
    intros NR. induction regs as [|[p off] r IH]; intros out t; [reflexivity|].
    cbn [fold_left]. unfold paint_slot at 2. rewrite NR. rewrite IH. reflexivity.
  Qed.

  (** what all features together do to one block (no randomness) *)
  Definition block_eval (fs : list feature) (q : query) (wt : @wtemp F) (p : prop_req) (blk : list F) : list F :=
    fold_left (fun b f => if ft_covers f q then paint0 f q wt p b else b) fs blk.

  Lemma block_eval_cons f fs q wt p blk :
    block_eval (f :: fs) q wt p blk = block_eval fs q wt p (if ft_covers f q then paint0 f q wt p blk else blk).
  Proof. reflexivity. Qed.

  Lemma block_eval_length fs q wt p : Forall paint_len fs -> forall blk,
    length blk = width p -> length (block_eval fs q wt p blk) = width p.
  Proof.
    intros H. induction H as [|f fs Hf Hfs IH]; intros blk L; [exact L|].
    rewrite block_eval_cons.
    apply IH. destruct (ft_covers f q); [apply Hf, L | exact L].
  Qed.

  Lemma feature_apply_eq f q wt regs out t : no_random f ->
    feature_apply q wt regs (out, t) f =
    ((if ft_covers f q then blockwise (paint0 f q wt) regs out else out), t).
  Proof.
    intros NR. unfold feature_apply. destruct (ft_covers f q); [|reflexivity].
    apply feature_apply_blockwise, NR.
  Qed.

  Lemma features_fold fs q wt regs :
    Forall paint_len fs -> Forall no_random fs -> forall out t r,
    regs_good (length out) regs ->
    fold_left (feature_apply q wt regs) fs (out, t) = r ->
    snd r = t /\ length (fst r) = length out /\
    (forall p off, In (p, off) regs ->
       slice off (width p) (fst r) = block_eval fs q wt p (slice off (width p) out)) /\
    (forall off n, Forall (fun pe => off + n <= snd pe \/ snd pe + width (fst pe) <= off) regs ->
       slice off n (fst r) = slice off n out).
  Proof.
    intros HL HN. revert HN. induction HL as [|f fs Hf Hfs IH]; intros HN out t r G E.
    - cbn in E. subst r. cbn. auto.
    - inversion HN as [|x l N1 N2]; subst x l. cbn [fold_left] in E.
      rewrite (feature_apply_eq f q wt regs out t N1) in E.
      destruct (ft_covers f q) eqn:C.
      + pose proof (paint0_keeps_len f q wt Hf) as K.
        assert (G' : regs_good (length (blockwise (paint0 f q wt) regs out)) regs).
        { rewrite blockwise_length; auto. }
        destruct (IH N2 (blockwise (paint0 f q wt) regs out) t r G' E) as (I1 & I2 & I3 & I4).
        repeat split.
        * exact I1.
        * rewrite I2. apply blockwise_length; auto.
        * intros p off I. rewrite (I3 p off I). rewrite block_eval_cons, C. f_equal.
          apply blockwise_block; auto.
        * intros off n D. rewrite (I4 off n D). apply blockwise_other; auto.
      + destruct (IH N2 out t r G E) as (I1 & I2 & I3 & I4). repeat split; auto.
        intros p off I. rewrite (I3 p off I). rewrite block_eval_cons, C. reflexivity.
  Qed.

  (** ** the world *)
  Definition world_ok (w : world) : Prop := Forall paint_len (w_features w).
  Definition world_no_random (w : world) : Prop := Forall no_random (w_features w).

  (** the value of one request, independent of the request list *)
  Definition block_value (w : world) (pos : vec3) (depth : F) (p : prop_req) : list F :=
    let q := mk_query w pos depth in
    if registered w depth p
    then block_eval (w_features w) q (fun _ => world_temperature w q) p (init_block w (q_g q) depth p)
    else init_block w (q_g q) depth p.

  Lemma In_init_regs w d s ps i p :
    nth_error ps i = Some p -> registered w d p = true ->
    In (p, s + output_size (firstn i ps)) (init_regs w d s ps).
  Proof.
    intros H R. unfold init_regs. apply filter_In. split; [|exact R].
    assert (Hi : i < length ps) by (apply nth_error_Some; congruence).
    apply (nth_error_In _ i).
    rewrite <- (offsets_from_nth ps s i Hi).
    clear R. revert s i H Hi. induction ps as [|a ps IH]; intros s i H Hi; [cbn in Hi; lia|].
    destruct i as [|i]; cbn [offsets_from combine nth_error nth] in *.
    - congruence.
    - apply IH; [exact H | cbn [length] in Hi; lia].
  Qed.

  Lemma init_regs_blocks w d s ps :
    Forall (fun pe => registered w d (fst pe) = true /\
                      exists i, nth_error ps i = Some (fst pe) /\ snd pe = s + output_size (firstn i ps))
           (init_regs w d s ps).
  Proof.
    unfold init_regs. apply Forall_forall. intros [p off] I. apply filter_In in I. destruct I as [I R].
    split; [exact R|]. clear R.
    cbn [fst snd]. revert s I. induction ps as [|a ps IH]; intros s I; [destruct I|].
    cbn [offsets_from combine] in I. destruct I as [E|I].
    - inversion E; subst. exists 0. split; [reflexivity|]. cbn; unfold output_size; cbn; lia.
    - destruct (IH _ I) as (i & H1 & H2). exists (S i). split; [exact H1|].
      cbn [firstn]. rewrite output_size_cons. lia.
  Qed.

  Lemma prefix_sizes_mono ps i j p :
    nth_error ps i = Some p -> i < j -> output_size (firstn i ps) + width p <= output_size (firstn j ps).
  Proof.
    intros H L. destruct (nth_error_split _ _ H) as (l1 & l2 & -> & <-).
    rewrite firstn_app, Nat.sub_diag, firstn_all. cbn [firstn]. rewrite app_nil_r.
    rewrite firstn_app, firstn_all2 by lia.
    replace (j - length l1) with (S (j - length l1 - 1)) by lia. cbn [firstn].
    rewrite output_size_app, output_size_cons. lia.
  Qed.

  Theorem properties3d_blocks (w : world) pos depth ps t r t' :
    world_ok w -> world_no_random w ->
    properties3d w pos depth ps t = Ok (r, t') ->
    t' = t /\ length r = output_size ps /\
    forall i p, nth_error ps i = Some p ->
      slice (output_size (firstn i ps)) (width p) r = block_value w pos depth p.
  Proof.
    intros WO WN. unfold properties3d, properties_at. cbn [mk_query q_depth q_g]. rewrite init_from_eq. cbn [length app].
    destruct (existsb _ _); [discriminate|]. intros E. inversion E as [E']; clear E.
    set (q := mk_query w pos depth) in *.
    pose proof (features_fold (w_features w) q (fun _ => world_temperature w q) (init_regs w depth 0 ps) WO WN
                  (init_out w (q_g q) depth ps) t (r, t')) as H.
    rewrite init_out_length in H. specialize (H (init_regs_good w depth ps) E').
    cbn [fst snd] in H. destruct H as (H1 & H2 & H3 & H4).
    repeat split; [exact H1 | exact H2 |].
    intros i p Hp. unfold block_value. fold q. destruct (registered w depth p) eqn:R.
    - rewrite (H3 p (output_size (firstn i ps))).
      + f_equal. apply init_out_slice, Hp.
      + apply (In_init_regs w depth 0 ps i p Hp R).
    - rewrite H4; [apply init_out_slice, Hp|].
      eapply Forall_impl; [|apply init_regs_blocks]. cbn beta.
      intros [p' off'] (R' & j & J1 & J2). cbn [fst snd] in *. rewrite J2. cbn [Nat.add].
      destruct (Nat.lt_trichotomy i j) as [L|[L|L]].
      + left. apply (prefix_sizes_mono ps i j p Hp L).
      + subst j. rewrite Hp in J1. inversion J1; subst p'. congruence.
      + right. apply (prefix_sizes_mono ps j i p' J1 L).
  Qed.
End Proofs.
