(** * C06 - slab and fault geometry equals the elementary construction for straight trenches.

    The executable specification [SlabSpec.planar_distance] (extracted and compared with
    World::distance_to_plane and with the membership reported through the tag by lib/c06.py) is, over
    the reals, the signed normal distance to and the arclength along a chain of straight lines and
    circular arcs.  The theorems below are stated for one piece starting at an arbitrary point, which
    is how the chain evaluates every piece (C06_chain). *)
From Coq Require Import Reals Lra List.
From WB Require Import Num Base RNum Props World Kernels Bezier SlabSpec SlabSpecProofs SlabModel SlabRefine SlabChain.
Import ListNotations.
Local Open Scope R_scope.

Section C06.
  Variable sp : special.
  Local Existing Instance Rnum.
  Let N := Rnum sp.

  (** straight piece: the point at arclength a, offset d along the downward normal, gets (d, a), is
      admissible iff 0 <= a <= L, and no point of the line is closer than |d| *)
  Theorem C06_straight : forall sx sy L th a d,
    let p := {| pc_len := L; pc_top := th; pc_bot := th |} in
    let u := sx + a * cos th - d * sin th in
    let v := sy + a * sin th + d * cos th in
    (pe_dist (@straight_eval R N sx sy p u v) = d /\ pe_along (@straight_eval R N sx sy p u v) = a /\
     (pe_ok (@straight_eval R N sx sy p u v) = true <-> 0 <= a <= L)) /\
    (forall a', d * d <= (u - (sx + a' * cos th)) * (u - (sx + a' * cos th)) + (v - (sy + a' * sin th)) * (v - (sy + a' * sin th))) /\
    (pe_ex (@straight_eval R N sx sy p u v) = sx + L * cos th /\ pe_ey (@straight_eval R N sx sy p u v) = sy + L * sin th).
  Proof.
    intros sx sy L th a d p u v. split; [|split].
    - exact (straight_coordinates sp sx sy L th a d).
    - exact (straight_nearest sx sy th a d).
    - exact (straight_end sp sx sy L th a d).
  Qed.

  (** arc: starts at the start point, tangent at parameter th dips with angle th at speed R (so the dip
      varies linearly with arclength, R = L/|t2-t1|), ends at the point of dip t2 after arclength L *)
  Theorem C06_arc_shape : forall sx sy L t1 t2, 0 < L -> t1 <> t2 ->
    let p := {| pc_len := L; pc_top := t1; pc_bot := t2 |} in
    (@arc_px R N sx p t1 = sx /\ @arc_py R N sy p t1 = sy) /\
    (forall th, derivable_pt_lim (fun x => @arc_px R N sx p x) th (@arc_sgn R N p * @arc_radius R N p * cos th) /\
                derivable_pt_lim (fun x => @arc_py R N sy p x) th (@arc_sgn R N p * @arc_radius R N p * sin th)) /\
    (forall u v, pe_ex (@arc_eval R N sx sy p u v) = @arc_px R N sx p t2 /\ pe_ey (@arc_eval R N sx sy p u v) = @arc_py R N sy p t2 /\
                 @arc_radius R N p * Rabs (t2 - t1) = L).
  Proof.
    intros sx sy L t1 t2 HL Hne p. split; [|split].
    - exact (arc_starts_at_start sp sx sy L t1 t2).
    - intros th. exact (arc_tangent sp sx sy L t1 t2 th).
    - intros u v. exact (arc_end sp sx sy L t1 t2 Hne u v).
  Qed.

  (** arc: the point whose foot is the arc point of dip phi, offset d along the downward normal (not
      beyond the centre of the circle), gets (d, R*|phi - t1|), is admissible, and no point of the
      circle is closer than |d| *)
  Theorem C06_arc : special_laws sp -> forall sx sy L t1 t2 phi d,
    0 < L -> 0 < t1 < PI -> 0 < t2 < PI -> t1 <> t2 ->
    let p := {| pc_len := L; pc_top := t1; pc_bot := t2 |} in
    (t1 <= phi <= t2 \/ t2 <= phi <= t1) -> 0 < @arc_radius R N p - @arc_sgn R N p * d ->
    let u := @arc_px R N sx p phi + d * - sin phi in
    let v := @arc_py R N sy p phi + d * cos phi in
    (pe_dist (@arc_eval R N sx sy p u v) = d /\
     pe_along (@arc_eval R N sx sy p u v) = @arc_radius R N p * Rabs (phi - t1) /\
     pe_ok (@arc_eval R N sx sy p u v) = true) /\
    (forall psi, d * d <= (u - @arc_px R N sx p psi) * (u - @arc_px R N sx p psi) + (v - @arc_py R N sy p psi) * (v - @arc_py R N sy p psi)).
  Proof.
    intros Law sx sy L t1 t2 phi d HL H1 H2 Hne p Hphi Hd u v. split.
    - exact (arc_coordinates sp sx sy L t1 t2 HL H1 H2 Hne phi d Hphi Hd Law).
    - apply (arc_nearest sp sx sy L t1 t2); assumption.
  Qed.

  (** chain: the reported answer is that of one admissible piece, evaluated from the end of the
      previous piece, with the arclengths of the previous pieces added *)
  Theorem C06_chain : forall (ps : list (@piece R)) u v r,
    @planar_distance R N ps u v = Some r ->
    exists j sxj syj donej p, nth_error ps j = Some p /\
      pe_ok (@eval_piece R N sxj syj p u v) = true /\
      r = (pe_dist (@eval_piece R N sxj syj p u v), donej + pe_along (@eval_piece R N sxj syj p u v), j,
           pe_along (@eval_piece R N sxj syj p u v) / pc_len p).
  Proof.
    intros ps u v r H. unfold planar_distance in H.
    destruct (chain_best_is_some_piece sp ps _ _ _ _ _ _ _ _ H) as [H'|H']; [discriminate|]. exact H'.
  Qed.

  (** refinement, straight pieces: in exact arithmetic the straight-piece computation of the model of
      distance_point_from_curved_planes (local frame with the second axis pointing up, piece starting at
      (bx, by), check point at arclength a and normal offset d) returns the specification's end point,
      admissibility, distance and arclength. *)
  Theorem C06_model_refines_spec_straight : forall sr bx by_ L th a d, 0 < L ->
    let cp := (bx + a * cos th - d * sin th, by_ - (a * sin th + d * cos th)) in
    let p := {| pc_len := L; pc_top := th; pc_bot := th |} in
    let e := @straight_eval R N bx (sr - by_) p (fst cp) (sr - snd cp) in
    fst (@straight_piece R N sr (bx, by_) L th cp) = (pe_ex e, sr - pe_ey e) /\
    match snd (@straight_piece R N sr (bx, by_) L th cp) with
    | Some (dist, along, _) => pe_ok e = true /\ dist = pe_dist e /\ along = pe_along e
    | None => pe_ok e = false
    end.
  Proof. intros sr bx by_ L th a d HL. exact (straight_piece_refines_spec sp sr bx by_ L th a d HL). Qed.

  (** refinement, arcs: for the generic centre construction (top dip at least 1e-8 away from the vertical, where the
      implementation switches to a special case) the arc computation of the model (acos-based angle, frame with the second
      axis up, centre at begin + sg*R*(-sin t1, -cos t1)) returns the specification's end point, admissibility, distance and
      arclength for the point whose foot is the arc point of dip phi with normal offset d (not within 2^-52 of the centre) *)
  Theorem C06_model_refines_spec_arc : special_laws sp -> forall sr bx by_ L t1 t2 phi d,
    0 < L -> 0 < t1 < PI -> 0 < t2 < PI -> t1 <> t2 -> 1 * powerRZ 10 (-8) <= Rabs (t1 - PI / 2) ->
    (t1 <= phi <= t2 \/ t2 <= phi <= t1) ->
    let sg := if Rlt_dec t1 t2 then 1 else -1 in
    let Rr := L / Rabs (t2 - t1) in
    let rho := Rr - sg * d in
    powerRZ 2 (-52) <= rho ->
    let cp := (bx - sg * Rr * sin t1 + sg * rho * sin phi, by_ - sg * Rr * cos t1 + sg * rho * cos phi) in
    let p := {| pc_len := L; pc_top := t1; pc_bot := t2 |} in
    let e := @arc_eval R N bx (sr - by_) p (fst cp) (sr - snd cp) in
    fst (@arc_piece R N sr (bx, by_) L t1 t2 (t1 - t2) cp) = (pe_ex e, sr - pe_ey e) /\
    match snd (@arc_piece R N sr (bx, by_) L t1 t2 (t1 - t2) cp) with
    | Some (dist, along, _) => pe_ok e = true /\ dist = pe_dist e /\ along = pe_along e
    | None => False
    end.
  Proof.
    intros Law sr bx by_ L t1 t2 phi d HL H1 H2 Hne Hgen Hphi sg Rr rho Hrho cp p e.
    exact (arc_piece_refines_spec sp sr bx by_ L t1 t2 phi d HL H1 H2 Hne Hgen Hphi Hrho Law).
  Qed.
End C06.

Print Assumptions C06_straight.
Print Assumptions C06_arc_shape.
Print Assumptions C06_arc.
Print Assumptions C06_chain.
Print Assumptions C06_model_refines_spec_straight.
Print Assumptions C06_model_refines_spec_arc.

(** membership: the covering test of the slab / fault model that is compared with the implementation bit for bit is the
    membership definition of the property text, for every number interpretation *)
From WB Require Import Features SlabFeature SlabFeatureProofs.
Theorem C06_membership : forall (F : Type) (NF : Num F) (lf : @line_feature F) (q : @query F),
  lf_covers lf q =
  (let pd := lf_distances lf q in
   let '(th, tr, tot, _, _) := lf_local lf pd in
   (flt (fabs (pd_distance pd)) finf || flt (pd_along pd) finf)
   && negb (flt (fabs th) (fmul f2 feps)) && negb (flt th tr)
   && (if lf_fault lf
       then fault_member (pd_distance pd) (pd_along pd) th tot (q_depth q) (lf_min lf) (lf_max lf) true
       else slab_member (pd_distance pd) (pd_along pd) tr th tot (q_depth q) (lf_min lf) (lf_max lf) true))%bool.
Proof. intros F NF lf q. exact (covers_is_membership lf q). Qed.
Print Assumptions C06_membership.

(** the pieces put together: for the Cartesian depth method the surface traced by the implementation's segment loop
    (end point after every piece, accumulated length, angle correction staying zero) is the end of the specification's
    chain over the interpolated pieces - whatever the check point - as long as every piece is at least 1e-14 long and is
    either straight or an arc with dips at least 1e-8 apart, top dip in (0, pi) and at least 1e-8 from the vertical *)
Theorem C06_loop_traces_spec_surface : forall (sp : special) (cur nxt : list (R * R * R)) sr frac isec cp st iseg u v,
  ss_add st = 0 ->
  Forall piece_ok (loop_pieces frac cur nxt) ->
  let st' := @segment_loop R (Rnum sp) DMNone sr frac isec cp st iseg cur nxt in
  ss_add st' = 0 /\
  ss_end st' = frame sr (@spec_chain_end R (Rnum sp) (loop_pieces frac cur nxt) (fst (ss_end st)) (sr - snd (ss_end st)) u v) /\
  ss_total st' = @spec_chain_done R (Rnum sp) (loop_pieces frac cur nxt) (ss_total st).
Proof. intros sp cur nxt sr frac isec cp st iseg u v H1 H2. exact (loop_end_refines_spec sp cur nxt sr frac isec cp st iseg u v H1 H2). Qed.
Print Assumptions C06_loop_traces_spec_surface.

(** the premises are met: a straight piece followed by an arc *)
Example C06_pieces_ok_somewhere :
  Forall piece_ok (loop_pieces (1 / 2) [(1, 1, 100); (1 / 4, 2, 100)] [(1, 1, 100); (1 / 4, 2, 100)]).
Proof.
  pose proof (pow10_neg_small 14) as [A14 B14]. pose proof (pow10_neg_small 8) as [A8 B8].
  assert (P3 : 3 < PI) by (pose proof PI2_3_2 as Q; unfold PI2 in Q; lra). pose proof PI_4 as P4.
  cbn [loop_pieces interp_piece tl].
  apply Forall_cons; [|apply Forall_cons; [|apply Forall_nil]]; unfold piece_ok; cbn [pc_len pc_top pc_bot].
  - split; [lra|]. left. lra.
  - split; [lra|]. right.
    replace (1 / 4 + 1 / 2 * (1 / 4 - 1 / 4) - (2 + 1 / 2 * (2 - 2))) with (- (7 / 4)) by lra.
    replace (1 / 4 + 1 / 2 * (1 / 4 - 1 / 4)) with (1 / 4) by lra.
    rewrite (Rabs_left (- (7 / 4))) by lra. rewrite (Rabs_left (1 / 4 - PI / 2)) by lra.
    split; [lra|]. split; [split; lra|]. lra.
Qed.

(** one step of the loop, for every number interpretation *)
Theorem C06_loop_step : forall (F : Type) (NF : Num F) sr frac isec cp2d st iseg t0 b0 l0 t1 b1 l1,
  let top := fadd (fadd (fadd t0 (fmul frac (fsub t1 t0))) (ss_add st)) f0 in
  let bottom := fadd (fadd b0 (fmul frac (fsub b1 b0))) (ss_add st) in
  let len := fadd l0 (fmul frac (fsub l1 l0)) in
  let st' := segment_step DMNone sr frac isec cp2d st iseg (t0, b0, l0) (t1, b1, l1) in
  ss_add st' = ss_add st /\
  ss_end st' = (if flt len e14 then ss_end st else piece_end sr (ss_end st) len top bottom cp2d) /\
  ss_total st' = (if flt len e14 then ss_total st else fadd (ss_total st) len).
Proof. intros F NF sr frac isec cp2d st iseg t0 b0 l0 t1 b1 l1. exact (segment_step_end_cartesian sr frac isec cp2d st iseg t0 b0 l0 t1 b1 l1). Qed.
Print Assumptions C06_loop_step.

(** evaluating a chain in two parts: the second part starts where the first ends *)
Theorem C06_chain_split : forall (F : Type) (NF : Num F) (ps qs : list (@piece F)) sx sy done k u v best,
  planar_chain (ps ++ qs) sx sy done k u v best =
  planar_chain qs (fst (spec_chain_end ps sx sy u v)) (snd (spec_chain_end ps sx sy u v))
               (spec_chain_done ps done) (length ps + k) u v (planar_chain ps sx sy done k u v best).
Proof. intros F NF ps qs sx sy done k u v best. exact (planar_chain_app ps qs sx sy done k u v best). Qed.
Print Assumptions C06_chain_split.
