(** * SlabTempProofs: what can be proved about the cooling models of slabs (property C20): the bottom side of the mass
    conserving model lies between its minimum temperature and the background, the slab top carries the minimum temperature,
    and the McKenzie series of the slab plate model vanishes on both slab surfaces. *)
From Coq Require Import Reals Lra List ZArith Bool Psatz.
From WB Require Import Num Base RNum Props World Kernels Features ModelProofs SlabMass SlabFeature.
Import ListNotations.
Local Open Scope R_scope.

Section STP.
  Variable sp : special.
  Local Existing Instance Rnum.
  Let N := Rnum sp.

  (** mass conserving slab, below the slab top (adjusted distance >= 0), half-space reference: the temperature is the
      background + (minimum temperature - background) * erfc(...), hence between the two *)
  Theorem mass_bottom_side_envelope (m : @mass_model R) top minT bgT old subvel age adj :
    special_laws sp -> mc_plate_reference m = false -> 0 <= adj -> 0 < mc_kappa m * age -> minT <= bgT ->
    minT <= @temperature_analytic R N m top minT bgT old subvel age adj <= bgT.
  Proof.
    intros L Hp Ha Hk Hm. unfold temperature_analytic.
    change (@flt R N) with Rltb. change (@f0 R N) with 0.
    destruct (Rltb_spec adj 0) as [C|C]; [lra|]. rewrite Hp.
    change (@fadd R N) with Rplus. change (@fsub R N) with Rminus. change (@fmul R N) with Rmult. change (@fdiv R N) with Rdiv.
    change (@ferfc R N) with (sp_erfc sp). change (@fsqrt R N) with sqrt. change (@f2 R N) with 2.
    assert (X : 0 <= adj / (2 * sqrt (mc_kappa m * age))).
    { unfold Rdiv. apply Rmult_le_pos; [exact Ha|]. left. apply Rinv_0_lt_compat.
      assert (0 < sqrt (mc_kappa m * age)) by (apply sqrt_lt_R0; exact Hk). lra. }
    pose proof (erfc_range sp L _ X) as [E0 E1]. split; nra.
  Qed.

  (** ... and at the slab top itself (adjusted distance 0) it is the minimum temperature *)
  Theorem mass_slab_top_value (m : @mass_model R) top minT bgT old subvel age :
    special_laws sp -> mc_plate_reference m = false ->
    @temperature_analytic R N m top minT bgT old subvel age 0 = minT.
  Proof.
    intros L Hp. unfold temperature_analytic.
    change (@flt R N) with Rltb. change (@f0 R N) with 0.
    destruct (Rltb_spec 0 0) as [C|C]; [lra|]. rewrite Hp.
    change (@fadd R N) with Rplus. change (@fsub R N) with Rminus. change (@fmul R N) with Rmult. change (@fdiv R N) with Rdiv.
    change (@ferfc R N) with (sp_erfc sp).
    replace (0 / (@f2 R N * @fsqrt R N (mc_kappa m * age))) with 0 by (unfold Rdiv; ring).
    rewrite (erfc_0 sp L). ring.
  Qed.

  (** the McKenzie series of the slab plate model vanishes on the slab top (z = 0) and on the slab bottom (z = 1): every
      term carries sin(i pi z) *)
  Theorem mckenzie_vanishes_on_boundaries n : forall i Rn x acc,
    @mckenzie_sum R N n i Rn x 0 acc = acc /\ @mckenzie_sum R N n i Rn x 1 acc = acc.
  Proof.
    induction n as [|n IH]; intros i Rn x acc; cbn [mckenzie_sum]; [split; reflexivity|].
    change (@fsin R N) with sin. change (@fmul R N) with Rmult. change (@fadd R N) with Rplus.
    change (@fofZ R N i) with (IZR i). change (@fpi R N) with PI.
    assert (S0 : sin (IZR i * PI * 0) = 0) by (rewrite Rmult_0_r; apply sin_0).
    assert (S1 : sin (IZR i * PI * 1) = 0).
    { rewrite Rmult_1_r. apply sin_eq_0_1. exists i. reflexivity. }
    rewrite S0, S1. rewrite !Rmult_0_r, !Rplus_0_r. apply IH.
  Qed.
  Lemma exp_le_1 x : x <= 0 -> exp x <= 1.
  Proof. intros [H|H]; [left; rewrite <- exp_0; apply exp_increasing; exact H | rewrite H, exp_0; lra]. Qed.

  (** the top side of the mass conserving slab (adjusted distance < 0, both reference models): a Gaussian heat deficit
      subtracted from the incoming temperature; with a non-positive heat content it never heats, and it never cools below the
      slab's minimum temperature (up to the 1e-16 the formula adds to its denominators) *)
  Theorem mass_top_side_envelope (m : @mass_model R) top minT bgT old subvel age adj :
    adj < 0 -> top <= 0 -> 0 < mc_density m * mc_cp m -> 0 < mc_kappa m -> minT <= old ->
    old - minT <> @fdec R N 1 (-16) ->
    minT - @fdec R N 1 (-16) <= @temperature_analytic R N m top minT bgT old subvel age adj <= old.
  Proof.
    intros Ha Ht Hd Hk Hm Hne. unfold temperature_analytic.
    change (@flt R N) with Rltb. change (@f0 R N) with 0.
    destruct (Rltb_spec adj 0) as [C|C]; [|lra].
    set (e16 := @fdec R N 1 (-16)) in *.
    assert (He : 0 < e16).
    { unfold e16. change (@fdec R N 1 (-16)) with (IZR 1 * powerRZ 10 (-16)). assert (0 < powerRZ 10 (-16)) by (apply powerRZ_lt; lra). lra. }
    destruct (Rltb_spec old minT) as [C2|C2]; [lra|].
    change (@fadd R N) with Rplus. change (@fsub R N) with Rminus. change (@fmul R N) with Rmult. change (@fdiv R N) with Rdiv.
    change (@fopp R N) with Ropp. change (@fsqrt R N) with sqrt. change (@fexp R N) with exp. change (@fpi R N) with PI.
    change (@f2 R N) with 2. change (@f1 R N) with 1. change (@fofZ R N 4) with 4.
    set (D := 2 * mc_density m * mc_cp m).
    set (g := minT - old + e16).
    set (inner := 2 * top / (D * g)).
    set (t := 1 / (PI * mc_kappa m) * (inner * inner) + e16).
    set (S := sqrt (PI * mc_kappa m * t)).
    set (E := exp (- (adj * adj) / (4 * mc_kappa m * t))).
    assert (HD : 0 < D) by (unfold D; nra).
    assert (Hg : g <> 0) by (unfold g; intro; apply Hne; lra).
    pose proof PI_RGT_0 as HP.
    assert (Hpk : 0 < PI * mc_kappa m) by nra.
    assert (Ht0 : 0 < t).
    { unfold t. assert (0 <= 1 / (PI * mc_kappa m) * (inner * inner)).
      { apply Rmult_le_pos; [left; apply Rdiv_lt_0_compat; lra | nra]. } lra. }
    assert (HS2 : PI * mc_kappa m * t = inner * inner + PI * mc_kappa m * e16).
    { unfold t. field. lra. }
    assert (HSpos : 0 < S) by (unfold S; apply sqrt_lt_R0; nra).
    assert (HSi : Rabs inner <= S).
    { unfold S. rewrite HS2. rewrite <- (sqrt_Rsqr_abs inner). apply sqrt_le_1_alt. unfold Rsqr. nra. }
    assert (HE0 : 0 < E) by apply exp_pos.
    assert (HE1 : E <= 1).
    { unfold E. apply exp_le_1. unfold Rdiv. assert (0 < / (4 * mc_kappa m * t)) by (apply Rinv_0_lt_compat; nra). nra. }
    set (A := 2 * top / (D * S)).
    assert (HA0 : A <= 0).
    { unfold A, Rdiv. assert (0 < / (D * S)) by (apply Rinv_0_lt_compat; nra). nra. }
    assert (HAg : - Rabs g <= A).
    { destruct (Req_dec top 0) as [T0|T0].
      - unfold A. rewrite T0. replace (2 * 0 / (D * S)) with 0 by (unfold Rdiv; ring). pose proof (Rabs_pos g). lra.
      - (* |inner| = |2 top| / (D |g|), so |2 top| = |inner| D |g| <= S D |g| *)
        assert (HI : Rabs inner * (D * Rabs g) = - (2 * top)).
        { unfold inner. unfold Rdiv. rewrite Rabs_mult, Rabs_inv. rewrite (Rabs_mult D g), (Rabs_pos_eq D) by lra.
          rewrite (Rabs_left1 (2 * top)) by lra. field. split; [apply Rabs_no_R0; exact Hg | lra]. }
        assert (Gp : 0 < Rabs g) by (apply Rabs_pos_lt; exact Hg).
        unfold A. apply Rmult_le_reg_r with (D * S); [nra|].
        unfold Rdiv. rewrite Rmult_assoc, Rinv_l by nra. rewrite Rmult_1_r.
        assert (Rabs inner * (D * Rabs g) <= S * (D * Rabs g)) by (apply Rmult_le_compat_r; nra). nra. }
    fold D. fold g. fold inner. fold t. fold S. fold E.
    replace (2 * top / (D * S)) with A by reflexivity.
    assert (HAE : - Rabs g <= A * E <= 0).
    { pose proof (Rabs_pos g). split; nra. }
    assert (Gb : Rabs g <= Rmax (old - minT - e16) e16).
    { unfold g, Rabs. destruct (Rcase_abs (minT - old + e16)); unfold Rmax; destruct (Rle_dec (old - minT - e16) e16); lra. }
    split; [|lra].
    unfold Rmax in Gb. destruct (Rle_dec (old - minT - e16) e16); lra.
  Qed.
End STP.
