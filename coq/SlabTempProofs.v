(** * SlabTempProofs: what can be proved about the cooling models of slabs (property C20): the bottom side of the mass
    conserving model lies between its minimum temperature and the background, the slab top carries the minimum temperature,
    and the McKenzie series of the slab plate model vanishes on both slab surfaces. *)
From Coq Require Import Reals Lra List ZArith Bool.
From WB Require Import Num Base RNum Props World Kernels Features ModelProofs SlabMass SlabFeature.
Import ListNotations.
Local Open Scope R_scope.

Section STP.
  Variable sp : special.
  Local Existing Instance Rnum.
  Let N := Rnum sp.

  (** mass conserving slab, below the slab top (adjusted distance >= 0), half-space reference: the temperature is the
      background + (minimum temperature - background) * erfc(...), hence between the two *)
  Theorem mass_bottom_side_envelope (m : @mass_model R) top minT bgT old subvel age adj :
    special_laws sp -> mc_plate_reference m = false -> 0 <= adj -> 0 < mc_kappa m * age -> minT <= bgT ->
    minT <= @temperature_analytic R N m top minT bgT old subvel age adj <= bgT.
  Proof.
    intros L Hp Ha Hk Hm. unfold temperature_analytic.
    change (@flt R N) with Rltb. change (@f0 R N) with 0.
    destruct (Rltb_spec adj 0) as [C|C]; [lra|]. rewrite Hp.
    change (@fadd R N) with Rplus. change (@fsub R N) with Rminus. change (@fmul R N) with Rmult. change (@fdiv R N) with Rdiv.
    change (@ferfc R N) with (sp_erfc sp). change (@fsqrt R N) with sqrt. change (@f2 R N) with 2.
    assert (X : 0 <= adj / (2 * sqrt (mc_kappa m * age))).
    { unfold Rdiv. apply Rmult_le_pos; [exact Ha|]. left. apply Rinv_0_lt_compat.
      assert (0 < sqrt (mc_kappa m * age)) by (apply sqrt_lt_R0; exact Hk). lra. }
    pose proof (erfc_range sp L _ X) as [E0 E1]. split; nra.
  Qed.

  (** ... and at the slab top itself (adjusted distance 0) it is the minimum temperature *)
  Theorem mass_slab_top_value (m : @mass_model R) top minT bgT old subvel age :
    special_laws sp -> mc_plate_reference m = false ->
    @temperature_analytic R N m top minT bgT old subvel age 0 = minT.
  Proof.
    intros L Hp. unfold temperature_analytic.
    change (@flt R N) with Rltb. change (@f0 R N) with 0.
    destruct (Rltb_spec 0 0) as [C|C]; [lra|]. rewrite Hp.
    change (@fadd R N) with Rplus. change (@fsub R N) with Rminus. change (@fmul R N) with Rmult. change (@fdiv R N) with Rdiv.
    change (@ferfc R N) with (sp_erfc sp).
    replace (0 / (@f2 R N * @fsqrt R N (mc_kappa m * age))) with 0 by (unfold Rdiv; ring).
    rewrite (erfc_0 sp L). ring.
  Qed.

  (** the McKenzie series of the slab plate model vanishes on the slab top (z = 0) and on the slab bottom (z = 1): every
      term carries sin(i pi z) *)
  Theorem mckenzie_vanishes_on_boundaries n : forall i Rn x acc,
    @mckenzie_sum R N n i Rn x 0 acc = acc /\ @mckenzie_sum R N n i Rn x 1 acc = acc.
  Proof.
    induction n as [|n IH]; intros i Rn x acc; cbn [mckenzie_sum]; [split; reflexivity|].
    change (@fsin R N) with sin. change (@fmul R N) with Rmult. change (@fadd R N) with Rplus.
    change (@fofZ R N i) with (IZR i). change (@fpi R N) with PI.
    assert (S0 : sin (IZR i * PI * 0) = 0) by (rewrite Rmult_0_r; apply sin_0).
    assert (S1 : sin (IZR i * PI * 1) = 0).
    { rewrite Rmult_1_r. apply sin_eq_0_1. exists i. reflexivity. }
    rewrite S0, S1. rewrite !Rmult_0_r, !Rplus_0_r. apply IH.
  Qed.
End STP.
