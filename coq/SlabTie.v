(** * SlabTie: the layout theorems of C10 at the level of the slab / fault evaluator.
    The evaluator (SlabFeature.v) is built from the per-coordinate table [table_of_layout L]; the
    re-layouts of property C10 give literally the same table, hence the same feature; an override changes
    only the row of its own coordinate, and a query reads only the two rows next to its foot. *)
From Coq Require Import List Arith Bool Lia.
From WB Require Import Num Base Props World Kernels Features Bezier SlabLayout SlabLayoutProofs SlabModel SlabFeature.
Import ListNotations.

Section Tie.
  Context {F : Type} {NF : Num F}.
  Notation layoutT := (layout mkind (@mlist_ F) (@sgeom F)).

  Lemma lseg_of_ext (r1 r2 : @sgeom F * (mkind -> option (@mlist_ F))) :
    req mkind (@mlist_ F) (@sgeom F) r1 r2 -> lseg_of r1 = lseg_of r2.
  Proof.
    destruct r1 as [g1 m1], r2 as [g2 m2]. intros [Hg Hm]. cbn [fst snd] in Hg, Hm. subst g2.
    unfold lseg_of. rewrite (Hm KTemp), (Hm KComp), (Hm KVel), (Hm KGrains). reflexivity.
  Qed.

  Lemma map_lseg_of_ext l1 l2 : Forall2 (req mkind (@mlist_ F) (@sgeom F)) l1 l2 -> map lseg_of l1 = map lseg_of l2.
  Proof. induction 1 as [|a b l1 l2 H _ IH]; cbn [map]; [reflexivity|]. rewrite (lseg_of_ext a b H), IH. reflexivity. Qed.

  Lemma table_of_ext t1 t2 : table_eq mkind (@mlist_ F) (@sgeom F) t1 t2 -> map (map lseg_of) t1 = map (map lseg_of) t2.
  Proof. induction 1 as [|a b t1 t2 H _ IH]; cbn [map]; [reflexivity|]. rewrite (map_lseg_of_ext a b H), IH. reflexivity. Qed.

  (** writing the inherited models into every segment, or repeating the default segments as section entries,
      builds the same feature: every query gets the same answer *)
  Theorem relayout_same_feature fault coords dip mn mx (L : layoutT) tag :
    line_of_layout fault coords dip mn mx (explicit_models L) tag = line_of_layout fault coords dip mn mx L tag /\
    line_of_layout fault coords dip mn mx (explicit_sections L) tag = line_of_layout fault coords dip mn mx L tag.
  Proof.
    unfold line_of_layout, table_of_layout. split; f_equal; apply table_of_ext.
    - apply explicit_models_table.
    - apply explicit_sections_table.
  Qed.

  (** an override of coordinate [se_coord e] leaves every other row of the table unchanged *)
  Theorem override_rows (L : layoutT) (e : section_entry mkind (@mlist_ F) (@sgeom F)) j :
    se_coord e <> j -> (j < ly_n L)%nat ->
    nth j (table_of_layout (override L e)) [] = nth j (table_of_layout L) [].
  Proof.
    intros Hne Hj. unfold table_of_layout, table. cbn [ly_n override].
    rewrite !(nth_indep _ [] (map lseg_of (section_of L 0))) by (rewrite !map_length, seq_length; exact Hj).
    assert (E : forall LL, nth j (map (map lseg_of) (map (section_of LL) (seq 0 (ly_n L)))) (map lseg_of (section_of L 0))
                       = map lseg_of (nth j (map (section_of LL) (seq 0 (ly_n L))) (section_of L 0))).
    { intros LL. apply (map_nth (map lseg_of)). }
    rewrite !E.
    assert (E2 : forall LL, nth j (map (section_of LL) (seq 0 (ly_n L))) (section_of L 0) = section_of LL j).
    { intros LL. rewrite (nth_indep _ (section_of L 0) (section_of LL 0)) by (rewrite map_length, seq_length; exact Hj).
      rewrite (map_nth (section_of LL)). rewrite seq_nth by exact Hj. reflexivity. }
    rewrite !E2. rewrite (override_other mkind (@mlist_ F) (@sgeom F) L e j Hne). reflexivity.
  Qed.

  (** what a query reads from the table: the local quantities come from the rows [pd_section] and
      [pd_section + 1] only *)
  Theorem local_reads_two_rows (lf1 lf2 : @line_feature F) (pd : @plane_distances F) :
    nth (pd_section pd) (lf_table lf1) [] = nth (pd_section pd) (lf_table lf2) [] ->
    nth (S (pd_section pd)) (lf_table lf1) [] = nth (S (pd_section pd)) (lf_table lf2) [] ->
    lf_local lf1 pd = lf_local lf2 pd.
  Proof. intros H1 H2. unfold lf_local. rewrite H1, H2. reflexivity. Qed.

  (** ... and so do the distances: distance_point_from_curved_planes reads the geometry rows of the foot's
      interval only *)
  Theorem distances_read_two_rows cp rp pl (g1 g2 : list (list (F * F * F))) sr b :
    (forall i, i = cl_index (closest_point_cartesian b (fst (fst cp), snd (fst cp))) ->
               nth i g1 [] = nth i g2 [] /\ nth (S i) g1 [] = nth (S i) g2 []) ->
    distance_point_from_curved_planes cp rp pl g1 sr b = distance_point_from_curved_planes cp rp pl g2 sr b.
  Proof.
    intros H. unfold distance_point_from_curved_planes. destruct cp as [[px py] pz]. cbn [fst snd] in H.
    destruct (H _ eq_refl) as [H1 H2]. rewrite H1, H2. reflexivity.
  Qed.
End Tie.
