(** * KdProofs: the generic kd-tree search of Kernels.v, at the real interpretation, is the search of
    KdSpec.v; hence [find_closest_points] returns a node at the true minimum distance. *)
From Coq Require Import Reals Lra Lia List Arith Bool PeanoNat.
From WB Require Import Num Base RNum Kernels KdSpec.
Import ListNotations.
Local Open Scope R_scope.

Section Link.
  Variable sp : special.
  Local Existing Instance Rnum.
  Let N := Rnum sp.

  Definition pts (nodes : list (@kdnode R)) : list (R * R) := map (fun n => (kd_x n, kd_y n)) nodes.

  Lemma node_pts nodes i : KdSpec.node (pts nodes) i = (kd_x (nth i nodes (@kd_default R N)), kd_y (nth i nodes (@kd_default R N))).
  Proof.
    unfold KdSpec.node, pts.
    change (0, 0) with ((fun n : @kdnode R => (kd_x n, kd_y n)) (@kd_default R N)).
    apply map_nth.
  Qed.

  Lemma search_link : forall fuel nodes cp l r yaxis (st : @kd_state R),
    fst (@kd_search R N fuel nodes cp l r yaxis st) = KdSpec.search fuel (pts nodes) cp l r yaxis (fst st).
  Proof.
    induction fuel as [|f IH]; intros nodes cp l r yaxis st; [reflexivity|].
    cbn [kd_search KdSpec.search]. replace (Nat.div2 (l + r)) with ((l + r) / 2)%nat by (symmetry; apply Nat.div2_div).
    set (mid := ((l + r) / 2)%nat). rewrite node_pts.
    set (nd := nth mid nodes (@kd_default R N)).
    change (@flt R N) with Rltb. change Rltb with KdSpec.ltb. change (@fsub R N) with Rminus.
    assert (K : forall y, KdSpec.key y (kd_x nd, kd_y nd) = kd_key y nd) by (intros []; reflexivity).
    assert (Kp : forall y, KdSpec.key y cp = @pt_key R y cp) by (intros []; reflexivity).
    assert (D : KdSpec.dist (kd_x nd, kd_y nd) cp = @kd_dist R N nd cp) by reflexivity.
    change (KdSpec.key yaxis (kd_x nd, kd_y nd)) with (kd_key yaxis nd).
    change (KdSpec.key yaxis cp) with (@pt_key R yaxis cp).
    change (KdSpec.dist (kd_x nd, kd_y nd) cp) with (@kd_dist R N nd cp).
    assert (V : forall d (s : @kd_state R),
               fst (@kd_visit R N mid d s) = (if KdSpec.ltb d (snd (fst s)) then (mid, d) else fst s)).
    { intros d [[mi md] vs]. unfold kd_visit. change (@flt R N) with KdSpec.ltb. cbn [fst snd].
      destruct (KdSpec.ltb d md); reflexivity. }
    destruct (KdSpec.ltb (pt_key yaxis cp) (kd_key yaxis nd)).
    - set (S1 := if (l <? mid)%nat then @kd_search R N f nodes cp l (mid - 1) (negb yaxis) st else st).
      set (b1 := if (l <? mid)%nat then KdSpec.search f (pts nodes) cp l (mid - 1) (negb yaxis) (fst st) else fst st).
      assert (H1 : fst S1 = b1) by (unfold S1, b1; destruct (l <? mid)%nat; [apply IH | reflexivity]).
      set (S2 := @kd_visit R N mid (@kd_dist R N nd cp) S1).
      assert (H2 : fst S2 = if KdSpec.ltb (@kd_dist R N nd cp) (snd b1) then (mid, @kd_dist R N nd cp) else b1)
        by (unfold S2; rewrite V, H1; reflexivity).
      destruct (mid <? r)%nat; [|exact H2].
      rewrite H2. match goal with |- fst (if ?c then _ else _) = _ => destruct c end; [rewrite IH, H2; reflexivity | exact H2].
    - set (S1 := if (mid <? r)%nat then @kd_search R N f nodes cp (mid + 1) r (negb yaxis) st else st).
      set (b1 := if (mid <? r)%nat then KdSpec.search f (pts nodes) cp (mid + 1) r (negb yaxis) (fst st) else fst st).
      assert (H1 : fst S1 = b1) by (unfold S1, b1; destruct (mid <? r)%nat; [apply IH | reflexivity]).
      set (S2 := @kd_visit R N mid (@kd_dist R N nd cp) S1).
      assert (H2 : fst S2 = if KdSpec.ltb (@kd_dist R N nd cp) (snd b1) then (mid, @kd_dist R N nd cp) else b1)
        by (unfold S2; rewrite V, H1; reflexivity).
      destruct (l <? mid)%nat; [|exact H2].
      rewrite H2. match goal with |- fst (if ?c then _ else _) = _ => destruct c end; [rewrite IH, H2; reflexivity | exact H2].
  Qed.

  (** [find_closest_points] returns the index of a node whose distance to the query is minimal
      among all nodes, for every node array that satisfies the kd invariant *)
  Theorem find_closest_points_correct (nodes : list (@kdnode R)) cp :
    nodes <> [] ->
    (forall i, (i < length nodes)%nat -> KdSpec.dist (KdSpec.node (pts nodes) i) cp < @fdmax R N) ->
    KdSpec.kd_inv (length nodes) (pts nodes) 0 (length nodes - 1) false ->
    let res := fst (@find_closest_points R N nodes cp) in
    (fst res < length nodes)%nat /\
    snd res = @kd_dist R N (nth (fst res) nodes (@kd_default R N)) cp /\
    forall i, (i < length nodes)%nat -> snd res <= @kd_dist R N (nth i nodes (@kd_default R N)) cp.
  Proof.
    intros Hne Hbig Hinv. cbn zeta. unfold find_closest_points. rewrite search_link. cbn [fst].
    assert (L : length (pts nodes) = length nodes) by apply map_length.
    assert (Hne' : pts nodes <> []) by (destruct nodes; [congruence|discriminate]).
    assert (Hlen : (0 < length nodes)%nat) by (destruct nodes; [congruence|cbn; lia]).
    assert (Hbig' : forall i, (i < length (pts nodes))%nat -> KdSpec.dist (KdSpec.node (pts nodes) i) cp < @fdmax R N)
      by (rewrite L; exact Hbig).
    assert (Hinv' : KdSpec.kd_inv (length (pts nodes)) (pts nodes) 0 (length (pts nodes) - 1) false)
      by (rewrite L; exact Hinv).
    pose proof (kd_search_is_brute_force (pts nodes) cp (@fdmax R N) Hne' Hbig' Hinv') as X.
    cbn zeta in X. rewrite <- L. destruct X as (A & B & C). repeat split.
    - exact A.
    - etransitivity; [exact B|]. rewrite node_pts. reflexivity.
    - intros i Hi. specialize (C i Hi). rewrite node_pts in C. exact C.
  Qed.
End Link.
