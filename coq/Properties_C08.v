(** * C08 - answers are invariant under rigid motions of world plus query.

    Over exact reals the geometric kernels of the model are functions of quantities that rigid motions
    preserve.  What is not a theorem: the whole query under a rotation (the polygon scan casts a ray
    along the x axis, so its rotation invariance is the invariance of the winding number, proved for
    translations only), the slab frame construction (not modelled yet) and every rounding effect; those
    are decided by the moved-world oracle of lib/c08.py on the implementation. *)
From Coq Require Import Reals Lra List.
From WB Require Import Num Base RNum Props World Kernels Features Plume MotionProofs.
Import ListNotations.
Local Open Scope R_scope.

Section C08.
  Variable sp : special.
  Local Existing Instance Rnum.
  Let N := Rnum sp.

  (** orientation tests, scalar products of coordinate differences and on-segment tests are invariant under
      every rotation about the vertical followed by a translation *)
  Theorem C08_orientation_and_products : forall al tx ty,
    (forall pj pi p, @is_left R N (move al tx ty pj) (move al tx ty pi) (move al tx ty p) = @is_left R N pj pi p) /\
    (forall pj pi p, @on_segment R N (move al tx ty pj) (move al tx ty pi) (move al tx ty p) = @on_segment R N pj pi p) /\
    (forall a b c d,
      (fst (move al tx ty b) - fst (move al tx ty a)) * (fst (move al tx ty d) - fst (move al tx ty c)) +
      (snd (move al tx ty b) - snd (move al tx ty a)) * (snd (move al tx ty d) - snd (move al tx ty c)) =
      (fst b - fst a) * (fst d - fst c) + (snd b - snd a) * (snd d - snd c)).
  Proof.
    intros al tx ty. split; [|split].
    - intros pj pi p. exact (is_left_rigid sp al tx ty pj pi p).
    - intros pj pi p. exact (on_segment_rigid sp al tx ty pj pi p).
    - intros a b c d. exact (dot_rigid al tx ty a b c d).
  Qed.

  (** the Cartesian ridge distance and the plume cross-section test (ellipse azimuth turned with the world) *)
  Theorem C08_distance_and_ellipse : forall al tx ty,
    (forall p q z1 z2,
      @dist_same_depth R N false (fst (move al tx ty p), snd (move al tx ty p), z1) (fst (move al tx ty q), snd (move al tx ty q), z2) =
      @dist_same_depth R N false (fst p, snd p, z1) (fst q, snd q, z2)) /\
    (forall c a e th p,
      @fraction_from_ellipse_center R N (move al tx ty c) a e (th + al) (move al tx ty p) = @fraction_from_ellipse_center R N c a e th p).
  Proof.
    intros al tx ty. split.
    - intros p q z1 z2. exact (cartesian_distance_rigid sp al tx ty p q z1 z2).
    - intros c a e th p. exact (ellipse_fraction_rigid sp al tx ty c a e th p).
  Qed.

  (** the polygon test is invariant under translations for every point whose vertex test (a relative
      tolerance of 1e4 ulp around each vertex) has the same outcome in both frames *)
  Theorem C08_polygon_translation : forall tx ty poly p,
    (forall v, In v poly -> vertex_test sp (shift tx ty v) (shift tx ty p) = vertex_test sp v p) ->
    @polygon_contains_impl R N (map (shift tx ty) poly) (shift tx ty p) = @polygon_contains_impl R N poly p.
  Proof. intros tx ty poly p H. exact (polygon_translation sp tx ty poly p H). Qed.

  (** spherical worlds: same-depth distances depend on longitudes through their difference, and the
      longitudes L, L + 360, L - 360 describe one Cartesian point *)
  Theorem C08_longitude : forall r lon1 lat1 lon2 lat2 off, 0 < r ->
    @great_circle_distance R N (r, lon1 + off, lat1) (r, lon2 + off, lat2) = @great_circle_distance R N (r, lon1, lat1) (r, lon2, lat2) /\
    @spherical_to_cartesian R N (r, lon1 + 2 * PI, lat1) = @spherical_to_cartesian R N (r, lon1, lat1) /\
    @spherical_to_cartesian R N (r, lon1 - 2 * PI, lat1) = @spherical_to_cartesian R N (r, lon1, lat1).
  Proof.
    intros r lon1 lat1 lon2 lat2 off Hr. split.
    - exact (great_circle_longitude_shift sp r lon1 lat1 lon2 lat2 off Hr).
    - exact (spherical_alias_same_point sp r lon1 lat1).
  Qed.
End C08.

Print Assumptions C08_orientation_and_products.
Print Assumptions C08_distance_and_ellipse.
Print Assumptions C08_polygon_translation.
Print Assumptions C08_longitude.

(** the distance to a ridge segment does not depend on which of the two copies of the query point (longitude L or
    L +- 360 degrees) is the natural one: when one copy is strictly closer in longitude to the segment, handing the two
    copies over in either order gives the same distance and spreading velocity (for every number interpretation).
    Before defect D31 was repaired the smaller of two great-circle distances decided, one of them measured to the
    projection of the far copy, which changes with the side the far copy lies on. *)
From WB Require Import Features.
Theorem C08_ridge_segment_alias_symmetric : forall (F : Type) (NF : Num F) sph nat_min (cp cp2 p0 p1 : F * F) v0 v1,
  let mid := fmul fhalf (fadd (fst p0) (fst p1)) in
  flt (fabs (fsub (fst cp2) mid)) (fabs (fsub (fst cp) mid)) = true ->
  flt (fabs (fsub (fst cp) mid)) (fabs (fsub (fst cp2) mid)) = false ->
  ridge_segment sph nat_min cp cp2 p0 p1 v0 v1 = ridge_segment sph nat_min cp2 cp p0 p1 v0 v1.
Proof.
  intros F NF sph nat_min cp cp2 p0 p1 v0 v1 mid H1 H2. unfold ridge_segment.
  fold mid. rewrite H1, H2.
  destruct (if fle _ f0 then _ else _) as [pb1 s1]. destruct (if fle _ f0 then _ else _) as [pb2 s2].
  destruct nat_min as [[a b] c3]. reflexivity.
Qed.
Print Assumptions C08_ridge_segment_alias_symmetric.
