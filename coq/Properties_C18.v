(** * C18 - gwb-grid writes the requested mesh (Cartesian grids) and the tag filter keeps the selected cells. *)
From Coq Require Import List Arith Lia PeanoNat Bool ZArith Reals Lra.
From WB Require Import Grid GridProofs.
Import ListNotations.

(** 3-D box: node and cell counts *)
Theorem C18_counts_3d : forall nx ny nz,
  length (nodes3 nx ny nz) = (nx + 1) * (nz + 1) * (ny + 1) /\ length (cells3 nx ny nz) = nx * nz * ny.
Proof. intros. split; [apply nodes3_count | apply cells3_count]. Qed.

(** the node stored at position (ny+1)(nz+1) i + (nz+1) j + k is lattice node (i,j,k) *)
Theorem C18_node_order_3d : forall nx ny nz i j k, i <= nx -> j <= ny -> k <= nz ->
  nth (node3 ny nz i j k) (nodes3 nx ny nz) (0, 0, 0) = (i, j, k).
Proof. exact nodes3_order. Qed.

(** every cell references the eight corners of its lattice cell, all of them existing nodes *)
Theorem C18_cell_corners_3d : forall ny nz i j k, 1 <= i -> 1 <= j -> 1 <= k ->
  conn3 ny nz i j k =
  [ node3 ny nz (i - 1) (j - 1) (k - 1); node3 ny nz i (j - 1) (k - 1); node3 ny nz i j (k - 1); node3 ny nz (i - 1) j (k - 1);
    node3 ny nz (i - 1) (j - 1) k;       node3 ny nz i (j - 1) k;       node3 ny nz i j k;       node3 ny nz (i - 1) j k ].
Proof. exact conn3_corners. Qed.

Theorem C18_cells_reference_nodes_3d : forall nx ny nz i j k v,
  1 <= i <= nx -> 1 <= j <= ny -> 1 <= k <= nz -> In v (conn3 ny nz i j k) -> v < np3 nx ny nz.
Proof. exact conn3_in_range. Qed.

(** 2-D *)
Theorem C18_counts_2d : forall nx nz, length (nodes2 nx nz) = (nx + 1) * (nz + 1) /\ length (cells2 nx nz) = nx * nz.
Proof. intros. split; [apply nodes2_count | apply cells2_count]. Qed.

Theorem C18_cell_corners_2d : forall nx i j, 1 <= i -> 1 <= j ->
  conn2 nx i j = [ node2 nx (i - 1) (j - 1); node2 nx i (j - 1); node2 nx i j; node2 nx (i - 1) j ].
Proof. exact conn2_corners. Qed.

Theorem C18_cells_reference_nodes_2d : forall nx nz i j v,
  1 <= i <= nx -> 1 <= j <= nz -> In v (conn2 nx i j) -> v < np2 nx nz.
Proof. exact conn2_in_range. Qed.

(** positions (exact reals): node i along an axis sits at min + i*d with d = (max-min)/n, the first
    on the lower and the last on the upper face of the box; Depth is the distance below the top *)
Local Open Scope R_scope.
Theorem C18_positions : forall (lo hi : R) (n : nat), (0 < n)%nat ->
  let d := (hi - lo) / INR n in
  lo + INR 0 * d = lo /\ lo + INR n * d = hi /\
  forall k : nat, (hi - lo) - INR k * d = hi - (lo + INR k * d).
Proof.
  intros lo hi n Hn d. assert (INR n <> 0) by (apply not_0_INR; lia). unfold d. repeat split.
  - cbn. ring.
  - field. assumption.
  - intros k. ring.
Qed.
Local Close Scope R_scope.

(** the filtered / by-tag outputs contain exactly the selected cells, one offset per cell *)
Theorem C18_filter_cells : forall nvert npoints include tags cells,
  fs_cells (filter_mesh nvert npoints include tags cells) = length (filter (keep_cell include tags) cells) /\
  fs_offsets (filter_mesh nvert npoints include tags cells) =
    map (fun i => i * nvert) (seq 1 (length (filter (keep_cell include tags) cells))).
Proof. intros. split; [apply filter_keeps_selected | apply filter_offsets]. Qed.

Print Assumptions C18_counts_3d.
Print Assumptions C18_node_order_3d.
Print Assumptions C18_cell_corners_3d.
Print Assumptions C18_cells_reference_nodes_3d.
Print Assumptions C18_counts_2d.
Print Assumptions C18_cell_corners_2d.
Print Assumptions C18_cells_reference_nodes_2d.
Print Assumptions C18_positions.
Print Assumptions C18_filter_cells.
