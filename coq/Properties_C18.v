(** * C18 - gwb-grid writes the requested mesh (Cartesian boxes, chunks, annulus, sphere) and the tag filter keeps the selected cells.
    The sphere grid (12 mapped blocks merged by a distance tolerance, SphereGrid.v) is modelled for every number interpretation;
    its node positions are compared bit for bit with the tool's on every run. *)
From Coq Require Import List Arith Lia PeanoNat Bool ZArith Reals Lra.
From WB Require Import Num Base RNum Grid GridProofs SphereGrid SphereGridProofs SphereGridReal.
Import ListNotations.

(** 3-D box: node and cell counts *)
Theorem C18_counts_3d : forall nx ny nz,
  length (nodes3 nx ny nz) = (nx + 1) * (nz + 1) * (ny + 1) /\ length (cells3 nx ny nz) = nx * nz * ny.
Proof. intros. split; [apply nodes3_count | apply cells3_count]. Qed.

(** the node stored at position (ny+1)(nz+1) i + (nz+1) j + k is lattice node (i,j,k) *)
Theorem C18_node_order_3d : forall nx ny nz i j k, i <= nx -> j <= ny -> k <= nz ->
  nth (node3 ny nz i j k) (nodes3 nx ny nz) (0, 0, 0) = (i, j, k).
Proof. exact nodes3_order. Qed.

(** every cell references the eight corners of its lattice cell, all of them existing nodes *)
Theorem C18_cell_corners_3d : forall ny nz i j k, 1 <= i -> 1 <= j -> 1 <= k ->
  conn3 ny nz i j k =
  [ node3 ny nz (i - 1) (j - 1) (k - 1); node3 ny nz i (j - 1) (k - 1); node3 ny nz i j (k - 1); node3 ny nz (i - 1) j (k - 1);
    node3 ny nz (i - 1) (j - 1) k;       node3 ny nz i (j - 1) k;       node3 ny nz i j k;       node3 ny nz (i - 1) j k ].
Proof. exact conn3_corners. Qed.

Theorem C18_cells_reference_nodes_3d : forall nx ny nz i j k v,
  1 <= i <= nx -> 1 <= j <= ny -> 1 <= k <= nz -> In v (conn3 ny nz i j k) -> v < np3 nx ny nz.
Proof. exact conn3_in_range. Qed.

(** 2-D *)
Theorem C18_counts_2d : forall nx nz, length (nodes2 nx nz) = (nx + 1) * (nz + 1) /\ length (cells2 nx nz) = nx * nz.
Proof. intros. split; [apply nodes2_count | apply cells2_count]. Qed.

Theorem C18_cell_corners_2d : forall nx i j, 1 <= i -> 1 <= j ->
  conn2 nx i j = [ node2 nx (i - 1) (j - 1); node2 nx i (j - 1); node2 nx i j; node2 nx (i - 1) j ].
Proof. exact conn2_corners. Qed.

Theorem C18_cells_reference_nodes_2d : forall nx nz i j v,
  1 <= i <= nx -> 1 <= j <= nz -> In v (conn2 nx i j) -> v < np2 nx nz.
Proof. exact conn2_in_range. Qed.

(** positions (exact reals): node i along an axis sits at min + i*d with d = (max-min)/n, the first
    on the lower and the last on the upper face of the box; Depth is the distance below the top *)
Local Open Scope R_scope.
Theorem C18_positions : forall (lo hi : R) (n : nat), (0 < n)%nat ->
  let d := (hi - lo) / INR n in
  lo + INR 0 * d = lo /\ lo + INR n * d = hi /\
  forall k : nat, (hi - lo) - INR k * d = hi - (lo + INR k * d).
Proof.
  intros lo hi n Hn d. assert (INR n <> 0) by (apply not_0_INR; lia). unfold d. repeat split.
  - cbn. ring.
  - field. assumption.
  - intros k. ring.
Qed.
Local Close Scope R_scope.

(** ** 2-D chunk grids (3-D chunk grids use the node numbering and the connectivity of the 3-D box above) *)
Theorem C18_counts_chunk2 : forall nx nz,
  length (nodes_chunk2 nx nz) = (nx + 1) * (nz + 1) /\ length (cells_chunk2 nx nz) = nx * nz.
Proof. intros. split; [apply nodes_chunk2_count | apply cells_chunk2_count]. Qed.

Theorem C18_node_order_chunk2 : forall nx nz i j, i <= nx -> j <= nz ->
  nth (cnode2 nz i j) (nodes_chunk2 nx nz) (0, 0) = (i, j).
Proof. exact nodes_chunk2_order. Qed.

Theorem C18_cell_corners_chunk2 : forall nz i j, 1 <= i -> 1 <= j ->
  conn_chunk2 nz i j = [ cnode2 nz (i - 1) (j - 1); cnode2 nz (i - 1) j; cnode2 nz i j; cnode2 nz i (j - 1) ].
Proof. exact conn_chunk2_corners. Qed.

Theorem C18_cells_reference_nodes_chunk2 : forall nx nz i j v,
  1 <= i <= nx -> 1 <= j <= nz -> In v (conn_chunk2 nz i j) -> v < (nx + 1) * (nz + 1).
Proof. exact conn_chunk2_in_range. Qed.

(** ** annulus: nt cells around; every cell references existing nodes, its corners are the nodes i and the successor of
    i around the ring on the rings j-1 and j, and the ring closes on itself (cell nt shares its edge with cell 1) *)
Theorem C18_counts_annulus : forall nt nz,
  length (nodes_annulus nt nz) = nt * (nz + 1) /\ length (cells_annulus nt nz) = nt * nz.
Proof. intros. split; [apply nodes_annulus_count | apply cells_annulus_count]. Qed.

Theorem C18_cell_corners_annulus : forall nt i j, 1 <= i <= nt -> 1 <= j ->
  conn_annulus nt i j = [ anode nt (awrap nt i) (j - 1); anode nt i (j - 1); anode nt i j; anode nt (awrap nt i) j ].
Proof. exact conn_annulus_corners. Qed.

Theorem C18_cells_reference_nodes_annulus : forall nt nz i j v,
  1 <= i <= nt -> 1 <= j <= nz -> In v (conn_annulus nt i j) -> v < nt * (nz + 1).
Proof. exact conn_annulus_in_range. Qed.

Theorem C18_annulus_ring_closes : forall nt j, 1 <= nt -> 1 <= j ->
  nth 0 (conn_annulus nt nt j) 0 = nth 1 (conn_annulus nt 1 j) 0 /\
  nth 3 (conn_annulus nt nt j) 0 = nth 2 (conn_annulus nt 1 j) 0.
Proof. exact annulus_ring_closes. Qed.

(** annulus node positions (exact reals): node i of a ring sits at the angle 2 pi (i-1)/nt - the ring is divided
    evenly and node nt+1 would be node 1 again - at the radius inner + j dr, and its Depth, computed by the tool as
    outer - |position|, is the distance outer - (inner + j dr) below the top of the grid *)
Local Open Scope R_scope.
Theorem C18_annulus_positions : forall (l_outer inner zi theta : R) (nt i : nat), (0 < nt)%nat -> l_outer <> 0 -> 0 <= inner + zi ->
  (INR i - 1) * (l_outer / INR nt) / l_outer * 2 * PI = 2 * PI * ((INR i - 1) / INR nt) /\
  (INR (nt + 1) - 1) * (l_outer / INR nt) / l_outer * 2 * PI = 2 * PI /\
  sqrt (cos theta * (inner + zi) * (cos theta * (inner + zi)) + sin theta * (inner + zi) * (sin theta * (inner + zi))) = inner + zi.
Proof.
  intros l_outer inner zi theta nt i Hn Hl Hr. assert (INR nt <> 0) by (apply not_0_INR; lia). repeat split.
  - field. split; assumption.
  - rewrite plus_INR. cbn [INR]. field. split; assumption.
  - replace (cos theta * (inner + zi) * (cos theta * (inner + zi)) + sin theta * (inner + zi) * (sin theta * (inner + zi)))
      with ((inner + zi) * (inner + zi) * (sin theta * sin theta + cos theta * cos theta)) by ring.
    pose proof (sin2_cos2 theta) as S. unfold Rsqr in S. rewrite S, Rmult_1_r. apply sqrt_square. exact Hr.
Qed.
Local Close Scope R_scope.

(** the filtered / by-tag outputs contain exactly the selected cells, one offset per cell *)
Theorem C18_filter_cells : forall nvert npoints include tags cells,
  fs_cells (filter_mesh nvert npoints include tags cells) = length (filter (keep_cell include tags) cells) /\
  fs_offsets (filter_mesh nvert npoints include tags cells) =
    map (fun i => i * nvert) (seq 1 (length (filter (keep_cell include tags) cells))).
Proof. intros. split; [apply filter_keeps_selected | apply filter_offsets]. Qed.

(** ** sphere grid, for every number interpretation (binary64 included) *)
Section C18_sphere.
  Context {F : Type} {NF : Num F}.

  (** n_cell_z * 12 * n^2 cells; (n_cell_z + 1) layers of as many nodes as the merge of the twelve block hulls keeps *)
  Theorem C18_sphere_counts : forall level nz (inner outer : F),
    length (sphere_cells level nz outer) = nz * (12 * (level * level)) /\
    length (sphere_nodes level nz inner outer) = (nz + 1) * n_kept (sphere_dups level outer) /\
    1 <= n_kept (sphere_dups level outer).
  Proof.
    intros level nz inner outer. split; [apply sphere_cells_count|]. split; [apply sphere_nodes_count|].
    apply first_node_kept. intros E. pose proof (all_nodes_length (F:=F) level) as L. rewrite E in L. unfold block_np in L. cbn [length] in L. lia.
  Qed.

  (** every cell is a shell cell (four nodes) on one layer followed by the same four nodes one layer further out *)
  Theorem C18_sphere_cell_shape : forall level nz (outer : F) c,
    In c (sphere_cells level nz outer) ->
    exists i sc, i < nz /\ In sc (shell_cells level (sphere_dups level outer)) /\ length sc = 4 /\
                 c = map (fun v => v + i * n_kept (sphere_dups level outer)) sc ++
                     map (fun v => v + (i + 1) * n_kept (sphere_dups level outer)) sc.
  Proof. intros level nz outer c. apply sphere_cells_shape. Qed.

  (** every vertex index of every cell is a node of the mesh *)
  Theorem C18_sphere_cells_reference_nodes : forall level nz (inner outer : F) c v,
    In c (sphere_cells level nz outer) -> In v c -> v < length (sphere_nodes level nz inner outer).
  Proof.
    intros level nz inner outer c v Hc Hv. destruct (C18_sphere_counts level nz inner outer) as [_ [-> K]].
    exact (sphere_cells_in_range level nz _ c v K Hc Hv).
  Qed.

  (** the renumbering after the merge is the order-preserving bijection from the kept nodes onto 0 .. n_kept-1 *)
  Theorem C18_sphere_renumbering : forall (ds : list (option nat)) i j,
    kept ds i -> kept ds j -> i < j ->
    nth i (sg_compact ds) 0 < nth j (sg_compact ds) 0 /\ nth j (sg_compact ds) 0 < n_kept ds.
  Proof. exact renumbering_is_order_preserving. Qed.
  (** node i*n_kept + k of the mesh is shell node k on layer i *)
  Theorem C18_sphere_node_order : forall level nz (inner outer : F) i k d0,
    i <= nz -> k < n_kept (sphere_dups level outer) ->
    nth (i * n_kept (sphere_dups level outer) + k) (sphere_nodes level nz inner outer) d0 =
    nth k (layer_nodes inner outer nz (kept_points (all_nodes level) (sphere_dups level outer)) i) d0.
  Proof. exact sphere_nodes_layer. Qed.
  (** the hull merge: when "a hull node within the tolerance" is transitive among the nodes (as it is when duplicates coincide up to
      rounding and distinct nodes are further apart than the tolerance), no node is merged into a node that is itself merged
      away, so the renumbering never reads an entry it has not written; the check evaluates this condition ([targets_ok]) on the
      model for every sphere grid it builds *)
  Theorem C18_sphere_merge_targets : forall (dist : F) (all : list (@spt F * bool)),
    (forall i j k, hull_close dist all i j = true -> hull_close dist all j k = true -> hull_close dist all i k = true) ->
    targets_ok (dups dist all) = true.
  Proof. exact targets_ok_of_transitivity. Qed.
End C18_sphere.

(** over exact reals: every node of layer i lies on the sphere of radius inner + i (outer - inner)/n_cell_z, and these radii
    run from the inner radius (layer 0) to the outer radius (layer n_cell_z) in equal steps *)
Section C18_sphere_real.
  Variable sp : special.
  Local Existing Instance Rnum.
  Let NR := Rnum sp.
  Local Open Scope R_scope.

  Theorem C18_sphere_layers : forall (inner outer : R) (nz : nat) shell i q d,
    In (q, d) (@layer_nodes R NR inner outer nz shell i) ->
    @sg_norm R NR q = Rabs (@layer_radius R NR inner outer nz i).
  Proof. exact (layer_nodes_on_sphere sp). Qed.

  Theorem C18_sphere_layer_radii : forall (inner outer : R) (nz : nat), (1 <= nz)%nat ->
    @layer_radius R NR inner outer nz 0 = inner /\ @layer_radius R NR inner outer nz nz = outer /\
    (forall i, @layer_radius R NR inner outer nz (S i) - @layer_radius R NR inner outer nz i = (outer - inner) / INR nz).
  Proof. exact (layer_radius_ends sp). Qed.
End C18_sphere_real.

Print Assumptions C18_counts_3d.
Print Assumptions C18_node_order_3d.
Print Assumptions C18_cell_corners_3d.
Print Assumptions C18_cells_reference_nodes_3d.
Print Assumptions C18_counts_2d.
Print Assumptions C18_cell_corners_2d.
Print Assumptions C18_cells_reference_nodes_2d.
Print Assumptions C18_positions.
Print Assumptions C18_filter_cells.
Print Assumptions C18_counts_chunk2.
Print Assumptions C18_node_order_chunk2.
Print Assumptions C18_cell_corners_chunk2.
Print Assumptions C18_cells_reference_nodes_chunk2.
Print Assumptions C18_counts_annulus.
Print Assumptions C18_cell_corners_annulus.
Print Assumptions C18_cells_reference_nodes_annulus.
Print Assumptions C18_annulus_ring_closes.
Print Assumptions C18_annulus_positions.
Print Assumptions C18_sphere_counts.
Print Assumptions C18_sphere_cell_shape.
Print Assumptions C18_sphere_cells_reference_nodes.
Print Assumptions C18_sphere_renumbering.
Print Assumptions C18_sphere_node_order.
Print Assumptions C18_sphere_layers.
Print Assumptions C18_sphere_layer_radii.
Print Assumptions C18_sphere_merge_targets.
