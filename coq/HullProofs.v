(** * HullProofs: a point of the trench curve lies in the bounding box of the two coordinates and the two control
    points of its segment (property C07: the surface bounding box is taken over coordinates and control points). *)
From Coq Require Import Reals Lra Lia List ZArith Bool Psatz.
From WB Require Import Num Base RNum Kernels Bezier.
Import ListNotations.
Local Open Scope R_scope.

Section Hull.
  Variable sp : special.
  Local Existing Instance Rnum.
  Let N := Rnum sp.

  Lemma bernstein_between lo hi x0 c0 c1 x1 t : 0 <= t <= 1 ->
    lo <= x0 <= hi -> lo <= c0 <= hi -> lo <= c1 <= hi -> lo <= x1 <= hi ->
    let u := 1 - t in
    lo <= u * u * u * x0 + 3 * u * u * t * c0 + 3 * u * t * t * c1 + t * t * t * x1 <= hi.
  Proof.
    intros [T0 T1] H0 H1 H2 H3 u.
    assert (U0 : 0 <= u) by (unfold u; lra).
    set (w0 := u * u * u). set (w1 := 3 * u * u * t). set (w2 := 3 * u * t * t). set (w3 := t * t * t).
    assert (W0 : 0 <= w0) by (unfold w0; apply Rmult_le_pos; [apply Rmult_le_pos|]; assumption).
    assert (W1 : 0 <= w1) by (unfold w1; repeat apply Rmult_le_pos; lra).
    assert (W2 : 0 <= w2) by (unfold w2; repeat apply Rmult_le_pos; lra).
    assert (W3 : 0 <= w3) by (unfold w3; apply Rmult_le_pos; [apply Rmult_le_pos|]; assumption).
    assert (S : w0 + w1 + w2 + w3 = 1) by (unfold w0, w1, w2, w3, u; ring).
    replace (u * u * u * x0 + 3 * u * u * t * c0 + 3 * u * t * t * c1 + t * t * t * x1)
      with (w0 * x0 + w1 * c0 + w2 * c1 + w3 * x1) by (unfold w0, w1, w2, w3; ring).
    split; nra.
  Qed.

  Theorem bezier_in_control_box (b : @bezier R) i t lox hix loy hiy : 0 <= t <= 1 ->
    let P0 := @pnth R N (bz_points b) i in
    let P1 := @pnth R N (bz_points b) (i + 1) in
    let C := nth i (bz_ctrl b) (@p0 R N, @p0 R N) in
    lox <= fst P0 <= hix -> lox <= fst (fst C) <= hix -> lox <= fst (snd C) <= hix -> lox <= fst P1 <= hix ->
    loy <= snd P0 <= hiy -> loy <= snd (fst C) <= hiy -> loy <= snd (snd C) <= hiy -> loy <= snd P1 <= hiy ->
    lox <= fst (@bezier_eval R N b i t) <= hix /\ loy <= snd (@bezier_eval R N b i t) <= hiy.
  Proof.
    intros Ht P0 P1 C X0 X1 X2 X3 Y0 Y1 Y2 Y3.
    unfold bezier_eval. fold P0 P1 C. destruct C as [[c0x c0y] [c1x c1y]]. destruct P0 as [x0 y0]. destruct P1 as [x1 y1].
    cbn [fst snd] in *. unfold padd, pscale, f3. cbn [fst snd].
    change (@fsub R N) with Rminus. change (@fmul R N) with Rmult. change (@fadd R N) with Rplus.
    change (@f1 R N) with 1. change (@fofZ R N 3) with 3.
    pose proof (bernstein_between lox hix x0 c0x c1x x1 t Ht X0 X1 X2 X3) as BX.
    pose proof (bernstein_between loy hiy y0 c0y c1y y1 t Ht Y0 Y1 Y2 Y3) as BY.
    cbn zeta in BX, BY. split; [destruct BX as [B1 B2] | destruct BY as [B1 B2]]; split; nra.
  Qed.
End Hull.
