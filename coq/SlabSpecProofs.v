(** * SlabSpecProofs: over the reals the planar specification is the signed normal distance to, and the
    arclength along, a chain of straight lines and circular arcs whose dip varies linearly. *)
From Coq Require Import Reals Lra Lia List ZArith Bool Psatz.
From WB Require Import Num Base RNum SlabSpec.
Import ListNotations.
Local Open Scope R_scope.

Section SSP.
  Variable sp : special.
  Local Existing Instance Rnum.
  Let N := Rnum sp.

  Lemma sc1 th : sin th * sin th + cos th * cos th = 1.
  Proof. pose proof (sin2_cos2 th) as H. unfold Rsqr in H. exact H. Qed.

  (** ** straight piece *)
  Section Straight.
    Variables sx sy L th a d : R.
    Let p : @piece R := {| pc_len := L; pc_top := th; pc_bot := th |}.
    (** the point with arclength [a] along the line and offset [d] along the downward normal *)
    Let u := sx + a * cos th - d * sin th.
    Let v := sy + a * sin th + d * cos th.

    Theorem straight_coordinates :
      pe_dist (@straight_eval R N sx sy p u v) = d /\ pe_along (@straight_eval R N sx sy p u v) = a /\
      (pe_ok (@straight_eval R N sx sy p u v) = true <-> 0 <= a <= L).
    Proof.
      assert (A : (u - sx) * cos th + (v - sy) * sin th = a).
      { unfold u, v. transitivity (a * (sin th * sin th + cos th * cos th)); [ring | rewrite sc1; ring]. }
      assert (D : (u - sx) * - sin th + (v - sy) * cos th = d).
      { unfold u, v. transitivity (d * (sin th * sin th + cos th * cos th)); [ring | rewrite sc1; ring]. }
      unfold straight_eval, nrm_x, nrm_y. cbn [pe_dist pe_along pe_ok pc_top pc_len p].
      change (@fsin R N) with sin. change (@fcos R N) with cos. change (@fmul R N) with Rmult.
      change (@fadd R N) with Rplus. change (@fsub R N) with Rminus. change (@fopp R N) with Ropp.
      change (@fle R N) with Rleb. change (@f0 R N) with 0.
      rewrite A, D. split; [reflexivity | split; [reflexivity|]].
      destruct (Rleb_spec 0 a); destruct (Rleb_spec a L); cbn; split; intros; try discriminate; try lra; reflexivity.
    Qed.

    (** the foot is the nearest point of the line: no point of the line is closer than |d| *)
    Theorem straight_nearest : forall a',
      d * d <= (u - (sx + a' * cos th)) * (u - (sx + a' * cos th)) + (v - (sy + a' * sin th)) * (v - (sy + a' * sin th)).
    Proof.
      intros a'. unfold u, v.
      replace ((sx + a * cos th - d * sin th - (sx + a' * cos th)) * (sx + a * cos th - d * sin th - (sx + a' * cos th)) +
               (sy + a * sin th + d * cos th - (sy + a' * sin th)) * (sy + a * sin th + d * cos th - (sy + a' * sin th)))
        with (((a - a') * (a - a') + d * d) * (sin th * sin th + cos th * cos th)) by ring.
      rewrite sc1. pose proof (Rle_0_sqr (a - a')) as Q. unfold Rsqr in Q. lra.
    Qed.

    (** the next piece starts where this one ends: at arclength L on the line *)
    Theorem straight_end :
      pe_ex (@straight_eval R N sx sy p u v) = sx + L * cos th /\ pe_ey (@straight_eval R N sx sy p u v) = sy + L * sin th.
    Proof. split; reflexivity. Qed.
  End Straight.

  (** ** circular arc: dip varying linearly from [t1] to [t2] over the length [L] *)
  Section Arc.
    Variables sx sy L t1 t2 : R.
    Hypothesis HL : 0 < L.
    Hypothesis Ht1 : 0 < t1 < PI.
    Hypothesis Ht2 : 0 < t2 < PI.
    Hypothesis Hne : t1 <> t2.
    Let p : @piece R := {| pc_len := L; pc_top := t1; pc_bot := t2 |}.
    Let sg := @arc_sgn R N p.
    Let Rr := @arc_radius R N p.

    Lemma sg_cases : (t1 < t2 /\ sg = 1) \/ (t2 < t1 /\ sg = -1).
    Proof.
      unfold sg, arc_sgn. cbn [pc_top pc_bot p]. change (@flt R N) with Rltb.
      destruct (Rltb_spec t1 t2); [left; split; [assumption|reflexivity] | right; split; [lra|reflexivity]].
    Qed.
    Lemma sg_sq : sg * sg = 1.
    Proof. destruct sg_cases as [[_ H]|[_ H]]; rewrite H; ring. Qed.

    Lemma Rr_eq : Rr = L / Rabs (t2 - t1).
    Proof. reflexivity. Qed.
    Lemma Rr_pos : 0 < Rr.
    Proof. rewrite Rr_eq. apply Rdiv_lt_0_compat; [exact HL|]. apply Rabs_pos_lt. lra. Qed.

    (** the arc starts at the start point, and its tangent at the parameter [th] dips with angle [th]:
        the velocity with respect to the dip angle is sg * R * (cos th, sin th), so that the arclength
        between the dips t1 and phi is R * |phi - t1| and the dip varies linearly with arclength *)
    Theorem arc_starts_at_start : @arc_px R N sx p t1 = sx /\ @arc_py R N sy p t1 = sy.
    Proof.
      unfold arc_px, arc_py, arc_cx, arc_cy. cbn [pc_top p].
      change (@fadd R N) with Rplus. change (@fsub R N) with Rminus. change (@fmul R N) with Rmult.
      split; ring.
    Qed.

    Theorem arc_tangent th :
      derivable_pt_lim (fun x => @arc_px R N sx p x) th (sg * Rr * cos th) /\
      derivable_pt_lim (fun x => @arc_py R N sy p x) th (sg * Rr * sin th).
    Proof.
      unfold arc_px, arc_py, nrm_x, nrm_y.
      change (@fsub R N) with Rminus. change (@fmul R N) with Rmult. change (@fopp R N) with Ropp.
      change (@fsin R N) with sin. change (@fcos R N) with cos.
      fold sg. fold Rr. split.
      - replace (sg * Rr * cos th) with (0 - sg * Rr * (- cos th)) by ring.
        apply (derivable_pt_lim_minus (fun _ => @arc_cx R N sx p) (fun x => sg * Rr * - sin x)).
        + apply derivable_pt_lim_const.
        + apply (derivable_pt_lim_scal (fun x => - sin x) (sg * Rr) th (- cos th)).
          apply (derivable_pt_lim_opp sin). apply derivable_pt_lim_sin.
      - replace (sg * Rr * sin th) with (0 - sg * Rr * (- sin th)) by ring.
        apply (derivable_pt_lim_minus (fun _ => @arc_cy R N sy p) (fun x => sg * Rr * cos x)).
        + apply derivable_pt_lim_const.
        + apply (derivable_pt_lim_scal cos (sg * Rr) th (- sin th)). apply derivable_pt_lim_cos.
    Qed.

    Section Point.
      (** the point whose foot is the arc point of dip [phi] (between t1 and t2), offset by [d] along
          the downward normal there; it has not passed the centre of the circle *)
      Variables phi d : R.
      Hypothesis Hphi : (t1 <= phi <= t2) \/ (t2 <= phi <= t1).
      Hypothesis Hd : 0 < Rr - sg * d.
      Let u := @arc_px R N sx p phi + d * - sin phi.
      Let v := @arc_py R N sy p phi + d * cos phi.

      Lemma w_eq : u - @arc_cx R N sx p = sg * (Rr - sg * d) * sin phi /\
                   v - @arc_cy R N sy p = - (sg * (Rr - sg * d) * cos phi).
      Proof.
        unfold u, v, arc_px, arc_py, nrm_x, nrm_y.
        change (@fsub R N) with Rminus. change (@fmul R N) with Rmult. change (@fopp R N) with Ropp.
        change (@fsin R N) with sin. change (@fcos R N) with cos. fold sg. fold Rr.
        pose proof sg_sq as S. split.
        - transitivity (sg * Rr * sin phi - (sg * sg) * d * sin phi); [rewrite S; ring | ring].
        - transitivity (- (sg * Rr * cos phi) + (sg * sg) * d * cos phi); [rewrite S; ring | ring].
      Qed.

      Theorem arc_coordinates : special_laws sp ->
        pe_dist (@arc_eval R N sx sy p u v) = d /\
        pe_along (@arc_eval R N sx sy p u v) = Rr * Rabs (phi - t1) /\
        pe_ok (@arc_eval R N sx sy p u v) = true.
      Proof.
        intros Law. destruct w_eq as [Wx Wy]. pose proof sg_sq as S. pose proof Rr_pos as RP.
        set (rho := Rr - sg * d) in *.
        unfold arc_eval. cbn [pe_dist pe_along pe_ok pc_top pc_bot pc_len p].
        fold sg. fold Rr.
        change (@fsub R N) with Rminus. change (@fmul R N) with Rmult. change (@fopp R N) with Ropp.
        change (@fadd R N) with Rplus. change (@fdiv R N) with Rdiv. change (@fsqrt R N) with sqrt.
        change (@fatan2 R N) with (sp_atan2 sp). change (@flt R N) with Rltb. change (@fle R N) with Rleb.
        change (@fpi R N) with PI. change (@f0 R N) with 0. change (@f1 R N) with 1.
        rewrite Wx, Wy.
        assert (E1 : sg * (sg * rho * sin phi) = rho * sin phi) by (transitivity ((sg * sg) * rho * sin phi); [ring | rewrite S; ring]).
        assert (E2 : - (sg * - (sg * rho * cos phi)) = rho * cos phi) by (transitivity ((sg * sg) * rho * cos phi); [ring | rewrite S; ring]).
        rewrite E1, E2.
        assert (Hphi' : - PI < phi <= PI) by (destruct Hphi; lra).
        rewrite (atan2_polar sp Law rho phi Hd Hphi').
        assert (E3 : sg * rho * sin phi * (sg * rho * sin phi) + - (sg * rho * cos phi) * - (sg * rho * cos phi) = rho * rho).
        { transitivity ((sg * sg) * rho * rho * (sin phi * sin phi + cos phi * cos phi)); [ring | rewrite S, sc1; ring]. }
        rewrite E3. rewrite sqrt_square by lra.
        destruct (Rltb_spec (phi - t1) (- PI)) as [Hw|Hw]; [exfalso; destruct Hphi; lra|].
        split; [|split].
        - unfold rho. transitivity ((sg * sg) * d); [ring | rewrite S; ring].
        - rewrite Rr_eq. destruct Hphi as [[H1 H2]|[H1 H2]].
          + rewrite (Rabs_right (t2 - t1)) by lra. rewrite (Rabs_right (phi - t1)) by lra. field. lra.
          + rewrite (Rabs_left (t2 - t1)) by lra.
            destruct (Req_dec phi t1) as [He|He].
            * rewrite He. replace (t1 - t1) with 0 by ring. rewrite Rabs_R0. field. lra.
            * rewrite (Rabs_left (phi - t1)) by lra. field. lra.
        - assert (Fr : 0 <= (phi - t1) / (t2 - t1) <= 1).
          { destruct Hphi as [[H1 H2]|[H1 H2]].
            - split; [apply Rmult_le_pos; [lra | left; apply Rinv_0_lt_compat; lra]|].
              apply Rmult_le_reg_r with (t2 - t1); [lra|]. unfold Rdiv. rewrite Rmult_assoc, Rinv_l by lra. lra.
            - replace ((phi - t1) / (t2 - t1)) with ((t1 - phi) / (t1 - t2)) by (field; lra).
              split; [apply Rmult_le_pos; [lra | left; apply Rinv_0_lt_compat; lra]|].
              apply Rmult_le_reg_r with (t1 - t2); [lra|]. unfold Rdiv. rewrite Rmult_assoc, Rinv_l by lra. lra. }
          destruct (Rleb_spec 0 ((phi - t1) / (t2 - t1))); [|lra].
          destruct (Rleb_spec ((phi - t1) / (t2 - t1)) 1); [reflexivity|lra].
      Qed.

      (** no point of the circle is closer to the point than |d| *)
      Theorem arc_nearest : forall psi,
        d * d <= (u - @arc_px R N sx p psi) * (u - @arc_px R N sx p psi) + (v - @arc_py R N sy p psi) * (v - @arc_py R N sy p psi).
      Proof.
        intros psi. destruct w_eq as [Wx Wy]. pose proof sg_sq as S. pose proof Rr_pos as RP.
        set (rho := Rr - sg * d) in *.
        assert (Ux : u - @arc_px R N sx p psi = sg * rho * sin phi - sg * Rr * sin psi).
        { replace (u - @arc_px R N sx p psi) with ((u - @arc_cx R N sx p) - (@arc_px R N sx p psi - @arc_cx R N sx p)) by ring.
          rewrite Wx. unfold arc_px, nrm_x. change (@fsub R N) with Rminus. change (@fmul R N) with Rmult.
          change (@fopp R N) with Ropp. change (@fsin R N) with sin. fold sg. fold Rr. ring. }
        assert (Uy : v - @arc_py R N sy p psi = - (sg * rho * cos phi) + sg * Rr * cos psi).
        { replace (v - @arc_py R N sy p psi) with ((v - @arc_cy R N sy p) - (@arc_py R N sy p psi - @arc_cy R N sy p)) by ring.
          rewrite Wy. unfold arc_py, nrm_y. change (@fsub R N) with Rminus. change (@fmul R N) with Rmult.
          change (@fcos R N) with cos. fold sg. fold Rr. ring. }
        rewrite Ux, Uy.
        assert (E : (sg * rho * sin phi - sg * Rr * sin psi) * (sg * rho * sin phi - sg * Rr * sin psi) +
                    (- (sg * rho * cos phi) + sg * Rr * cos psi) * (- (sg * rho * cos phi) + sg * Rr * cos psi)
                    = rho * rho + Rr * Rr - 2 * rho * Rr * cos (phi - psi)).
        { rewrite cos_minus.
          transitivity ((sg * sg) * (rho * rho * (sin phi * sin phi + cos phi * cos phi) + Rr * Rr * (sin psi * sin psi + cos psi * cos psi)
                                    - 2 * rho * Rr * (cos phi * cos psi + sin phi * sin psi))); [ring|].
          rewrite S, !sc1. ring. }
        rewrite E.
        assert (D2 : d * d = (Rr - rho) * (Rr - rho)).
        { unfold rho. transitivity ((sg * sg) * d * d); [rewrite S; ring | ring]. }
        rewrite D2. pose proof (COS_bound (phi - psi)) as [_ C].
        assert (0 <= rho * Rr * (1 - cos (phi - psi))) by (apply Rmult_le_pos; [apply Rmult_le_pos; lra | lra]).
        nra.
      Qed.
    End Point.

    (** the next piece starts at the arc point of dip t2, after the arclength L *)
    Theorem arc_end u v :
      pe_ex (@arc_eval R N sx sy p u v) = @arc_px R N sx p t2 /\ pe_ey (@arc_eval R N sx sy p u v) = @arc_py R N sy p t2 /\
      Rr * Rabs (t2 - t1) = L.
    Proof.
      split; [reflexivity | split; [reflexivity|]]. rewrite Rr_eq. field. apply Rabs_no_R0. lra.
    Qed.
  End Arc.

  (** ** the chain: pieces are evaluated from the end of the previous one, arclengths accumulate, and the
      answer is that of an admissible piece (foot inside the piece) of least |distance| *)
  Lemma chain_best_is_some_piece : forall (ps : list (@piece R)) sx sy done k u v best r,
    @planar_chain R N ps sx sy done k u v best = Some r ->
    best = Some r \/
    exists j sxj syj donej p, nth_error ps j = Some p /\
      pe_ok (@eval_piece R N sxj syj p u v) = true /\
      r = (pe_dist (@eval_piece R N sxj syj p u v), donej + pe_along (@eval_piece R N sxj syj p u v), (k + j)%nat,
           pe_along (@eval_piece R N sxj syj p u v) / pc_len p).
  Proof.
    induction ps as [|p ps IH]; intros sx sy done k u v best r H; cbn [planar_chain] in H; [left; exact H|].
    apply IH in H. destruct H as [H|[j [sxj [syj [donej [q [Hn [Hok Hr]]]]]]]].
    - destruct (better (eval_piece sx sy p u v) best) eqn:B.
      + right. exists 0%nat, sx, sy, done, p. split; [reflexivity|].
        unfold better in B. apply andb_prop in B. destruct B as [B _]. split; [exact B|].
        injection H as H. rewrite <- H. rewrite Nat.add_0_r. reflexivity.
      + left. exact H.
    - right. exists (S j), sxj, syj, donej, q. split; [exact Hn|]. split; [exact Hok|].
      rewrite Hr. replace (k + S j)%nat with (S k + j)%nat by lia. reflexivity.
  Qed.

  (** a point with no admissible piece has no distance *)
  Lemma chain_none : forall (ps : list (@piece R)) sx sy done k u v,
    @planar_chain R N ps sx sy done k u v None = None ->
    forall r, @planar_chain R N ps sx sy done k u v None <> Some r.
  Proof. intros ps sx sy done k u v H r H'. rewrite H in H'. discriminate. Qed.
End SSP.

(** ** the depth cut-off of the acceleration shortcuts (property C07) is sufficient for chains of straight
    pieces: a point at arclength [a] of a piece and normal offset [d] (0 <= d) lies no deeper than the start of
    the surface + the length of the chain up to that arclength + d.  Hence a member of the feature (along <= total
    length, distance <= thickness) has depth <= min depth + total length + thickness. *)
Section Cutoff.
  Variable sp : special.
  Local Existing Instance Rnum.
  Let N := Rnum sp.

  (** depth of the end of a chain of straight pieces (length, dip) that starts at depth [sy] *)
  Fixpoint chain_end_depth (ps : list (R * R)) (sy : R) : R :=
    match ps with
    | [] => sy
    | (L, th) :: r => chain_end_depth r (sy + L * sin th)
    end.
  Fixpoint chain_length (ps : list (R * R)) : R :=
    match ps with [] => 0 | (L, _) :: r => L + chain_length r end.

  Lemma chain_end_depth_bound : forall ps sy, (forall L th, In (L, th) ps -> 0 <= L) ->
    chain_end_depth ps sy <= sy + chain_length ps.
  Proof.
    induction ps as [|[L th] r IH]; intros sy H; cbn [chain_end_depth chain_length]; [lra|].
    assert (HL : 0 <= L) by (apply (H L th); left; reflexivity).
    assert (IH' := IH (sy + L * sin th) (fun L' th' Hin => H L' th' (or_intror Hin))).
    pose proof (SIN_bound th) as [_ S1].
    assert (L * sin th <= L) by nra. lra.
  Qed.

  (** the end depth computed by the specification's straight pieces is [chain_end_depth] *)
  Lemma spec_end_depth sx sy L th u v :
    pe_ey (@straight_eval R N sx sy {| pc_len := L; pc_top := th; pc_bot := th |} u v) = sy + L * sin th.
  Proof. reflexivity. Qed.

  Theorem cutoff_sufficient_straight : forall prefix sy L th a d,
    (forall L' th', In (L', th') prefix -> 0 <= L') -> 0 <= a <= L -> 0 <= d ->
    let start := chain_end_depth prefix sy in
    start + a * sin th + d * cos th <= sy + (chain_length prefix + L) + d.
  Proof.
    intros prefix sy L th a d Hp [Ha0 Ha1] Hd start.
    pose proof (chain_end_depth_bound prefix sy Hp) as B. fold start in B.
    pose proof (SIN_bound th) as [_ S1]. pose proof (COS_bound th) as [_ C1].
    assert (a * sin th <= a) by nra. assert (d * cos th <= d) by nra. lra.
  Qed.
End Cutoff.

(** ** horizontal reach (property C07, surface bounding box): a point at arclength [a] of a piece after the
    pieces [prefix], offset [d] along the normal, lies no further from the trench (horizontally) than the length
    of the chain up to there + |d|. *)
Section Reach.
  Fixpoint chain_end_x (ps : list (R * R)) (sx : R) : R :=
    match ps with
    | [] => sx
    | (L, th) :: r => chain_end_x r (sx + L * cos th)
    end.

  Lemma chain_end_x_bound : forall ps sx, (forall L th, In (L, th) ps -> 0 <= L) ->
    Rabs (chain_end_x ps sx - sx) <= chain_length ps.
  Proof.
    induction ps as [|[L th] r IH]; intros sx H; cbn [chain_end_x chain_length].
    - replace (sx - sx) with 0 by ring. rewrite Rabs_R0. lra.
    - assert (HL : 0 <= L) by (apply (H L th); left; reflexivity).
      assert (IH' := IH (sx + L * cos th) (fun L' th' Hin => H L' th' (or_intror Hin))).
      replace (chain_end_x r (sx + L * cos th) - sx) with ((chain_end_x r (sx + L * cos th) - (sx + L * cos th)) + L * cos th) by ring.
      eapply Rle_trans; [apply Rabs_triang|].
      assert (Rabs (L * cos th) <= L).
      { rewrite Rabs_mult, (Rabs_right L) by lra. pose proof (COS_bound th) as [C0 C1].
        assert (Rabs (cos th) <= 1) by (apply Rabs_le; lra). nra. }
      lra.
  Qed.

  Theorem reach_sufficient_straight : forall prefix sx L th a d,
    (forall L' th', In (L', th') prefix -> 0 <= L') -> 0 <= a <= L ->
    Rabs (chain_end_x prefix sx + a * cos th - d * sin th - sx) <= (chain_length prefix + L) + Rabs d.
  Proof.
    intros prefix sx L th a d Hp [Ha0 Ha1].
    pose proof (chain_end_x_bound prefix sx Hp) as B.
    replace (chain_end_x prefix sx + a * cos th - d * sin th - sx)
      with ((chain_end_x prefix sx - sx) + (a * cos th + - (d * sin th))) by ring.
    eapply Rle_trans; [apply Rabs_triang|].
    assert (A1 : Rabs (a * cos th + - (d * sin th)) <= a + Rabs d).
    { eapply Rle_trans; [apply Rabs_triang|]. rewrite Rabs_Ropp, !Rabs_mult, (Rabs_right a) by lra.
      pose proof (COS_bound th) as [C0 C1]. pose proof (SIN_bound th) as [S0 S1].
      assert (Rabs (cos th) <= 1) by (apply Rabs_le; lra). assert (Rabs (sin th) <= 1) by (apply Rabs_le; lra).
      pose proof (Rabs_pos d). nra. }
    lra.
  Qed.
End Reach.

(** ** the same two bounds (property C07: depth cut-off and horizontal reach) for chains of straight pieces *and arcs*,
    walked exactly as the specification [planar_chain] walks them: every piece starts where [eval_piece] says the
    previous one ends.  Chord <= arc: |sin a - sin b| <= |a - b| and |cos a - cos b| <= |a - b|. *)
Section ArcReach.
  Variable sp : special.
  Local Existing Instance Rnum.
  Let N := Rnum sp.

  Lemma abs_sin_le x : Rabs (sin x) <= Rabs x.
  Proof.
    assert (P : forall y, 0 < y -> Rabs (sin y) <= y).
    { intros y Hy. pose proof (sin_lt_x y Hy) as S. pose proof (SIN_bound y) as [B0 B1]. apply Rabs_le.
      destruct (Rle_dec y 1) as [L|L]; [|lra].
      assert (0 <= sin y). { apply sin_ge_0; [lra|]. pose proof PI2_1. pose proof PI_RGT_0. lra. }
      lra. }
    destruct (Rtotal_order x 0) as [H|[H|H]].
    - rewrite (Rabs_left x H). assert (Hn : 0 < - x) by lra. specialize (P (- x) Hn). rewrite sin_neg, Rabs_Ropp in P. exact P.
    - subst x. rewrite sin_0, Rabs_R0. lra.
    - rewrite (Rabs_right x) by lra. apply P. exact H.
  Qed.

  Lemma sin_lip a b : Rabs (sin a - sin b) <= Rabs (a - b).
  Proof.
    rewrite form4. rewrite !Rabs_mult. rewrite (Rabs_right 2) by lra.
    pose proof (abs_sin_le ((a - b) / 2)) as S.
    assert (C : Rabs (cos ((a + b) / 2)) <= 1) by (apply Rabs_le; pose proof (COS_bound ((a + b) / 2)); lra).
    assert (E : Rabs ((a - b) / 2) = Rabs (a - b) / 2).
    { unfold Rdiv. rewrite Rabs_mult. rewrite (Rabs_right (/ 2)) by lra. reflexivity. }
    rewrite E in S. pose proof (Rabs_pos (cos ((a + b) / 2))). pose proof (Rabs_pos (sin ((a - b) / 2))). nra.
  Qed.

  Lemma cos_lip a b : Rabs (cos a - cos b) <= Rabs (a - b).
  Proof.
    rewrite form2. rewrite !Rabs_mult. rewrite (Rabs_left (-2)) by lra.
    pose proof (abs_sin_le ((a - b) / 2)) as S.
    assert (C : Rabs (sin ((a + b) / 2)) <= 1) by (apply Rabs_le; pose proof (SIN_bound ((a + b) / 2)); lra).
    assert (E : Rabs ((a - b) / 2) = Rabs (a - b) / 2).
    { unfold Rdiv. rewrite Rabs_mult. rewrite (Rabs_right (/ 2)) by lra. reflexivity. }
    rewrite E in S. pose proof (Rabs_pos (sin ((a + b) / 2))). pose proof (Rabs_pos (sin ((a - b) / 2))). nra.
  Qed.

  (** ** chains of straight pieces and arcs, exactly as the specification [planar_chain] walks them *)
  Definition piece_end (sx sy : R) (p : @piece R) : R * R :=
    let e := @eval_piece R N sx sy p 0 0 in (pe_ex e, pe_ey e).

  Lemma piece_end_any sx sy p u v :
    (pe_ex (@eval_piece R N sx sy p u v), pe_ey (@eval_piece R N sx sy p u v)) = piece_end sx sy p.
  Proof. unfold piece_end, eval_piece. destruct (is_straight p); reflexivity. Qed.

  Fixpoint gchain_end (ps : list (@piece R)) (sx sy : R) : R * R :=
    match ps with
    | [] => (sx, sy)
    | p :: r => let e := piece_end sx sy p in gchain_end r (fst e) (snd e)
    end.
  Fixpoint glength (ps : list (@piece R)) : R :=
    match ps with [] => 0 | p :: r => pc_len p + glength r end.

  Lemma not_straight_ne p : @is_straight R N p = false -> pc_top p <> pc_bot p.
  Proof.
    unfold is_straight. change (@flt R N) with Rltb. change (@fabs R N) with Rabs. change (@fsub R N) with Rminus.
    intros H E. rewrite E in H. replace (pc_bot p - pc_bot p) with 0 in H by ring. rewrite Rabs_R0 in H.
    destruct (Rltb_spec 0 (@fdec R N 1 (-9))) as [_|n]; [discriminate|]. apply n.
    change (@fdec R N 1 (-9)) with (IZR 1 * powerRZ 10 (-9)). rewrite Rmult_1_l. apply powerRZ_lt. lra.
  Qed.

  (** the arc point of dip [th] is no further from the start of the arc, in either coordinate, than the
      arclength R |th - t1| between them *)
  Lemma arc_point_bound sx sy p th : pc_top p <> pc_bot p -> 0 <= pc_len p ->
    Rabs (@arc_px R N sx p th - sx) <= @arc_radius R N p * Rabs (th - pc_top p) /\
    Rabs (@arc_py R N sy p th - sy) <= @arc_radius R N p * Rabs (th - pc_top p).
  Proof.
    intros Hne HL. unfold arc_px, arc_py, arc_cx, arc_cy, nrm_x, nrm_y.
    change (@fadd R N) with Rplus. change (@fsub R N) with Rminus. change (@fmul R N) with Rmult. change (@fopp R N) with Ropp.
    change (@fsin R N) with sin. change (@fcos R N) with cos.
    set (sg := @arc_sgn R N p). set (Rr := @arc_radius R N p).
    assert (SG : Rabs sg = 1).
    { unfold sg, arc_sgn. change (@flt R N) with Rltb. destruct (Rltb (pc_top p) (pc_bot p)).
      - change (@f1 R N) with 1. apply Rabs_R1.
      - change (Rabs (Ropp 1) = 1). rewrite Rabs_Ropp. apply Rabs_R1. }
    assert (RP : 0 <= Rr).
    { unfold Rr, arc_radius. change (@fdiv R N) with Rdiv. change (@fabs R N) with Rabs. change (@fsub R N) with Rminus.
      apply Rmult_le_pos; [exact HL|]. apply Rlt_le, Rinv_0_lt_compat, Rabs_pos_lt. intro E0; apply Hne; lra. }
    split.
    - replace (sx + sg * Rr * - sin (pc_top p) - sg * Rr * - sin th - sx) with (sg * Rr * (sin th - sin (pc_top p))) by ring.
      rewrite !Rabs_mult, SG, (Rabs_right Rr) by lra. pose proof (sin_lip th (pc_top p)). nra.
    - replace (sy + sg * Rr * cos (pc_top p) - sg * Rr * cos th - sy) with (- (sg * Rr * (cos th - cos (pc_top p)))) by ring.
      rewrite Rabs_Ropp, !Rabs_mult, SG, (Rabs_right Rr) by lra. pose proof (cos_lip th (pc_top p)). nra.
  Qed.

  Lemma arc_full_length p : pc_top p <> pc_bot p -> @arc_radius R N p * Rabs (pc_bot p - pc_top p) = pc_len p.
  Proof.
    intros Hne. unfold arc_radius. change (@fdiv R N) with Rdiv. change (@fabs R N) with Rabs. change (@fsub R N) with Rminus.
    field. apply Rabs_no_R0. intro E0; apply Hne; lra.
  Qed.

  Lemma piece_end_bound sx sy p : 0 <= pc_len p ->
    Rabs (fst (piece_end sx sy p) - sx) <= pc_len p /\ Rabs (snd (piece_end sx sy p) - sy) <= pc_len p.
  Proof.
    intros HL. unfold piece_end, eval_piece. destruct (is_straight p) eqn:S.
    - unfold straight_eval. cbn [pe_ex pe_ey fst snd].
      change (@fadd R N) with Rplus. change (@fmul R N) with Rmult. change (@fsin R N) with sin. change (@fcos R N) with cos.
      replace (sx + pc_len p * cos (pc_top p) - sx) with (pc_len p * cos (pc_top p)) by ring.
      replace (sy + pc_len p * sin (pc_top p) - sy) with (pc_len p * sin (pc_top p)) by ring.
      rewrite !Rabs_mult, (Rabs_right (pc_len p)) by lra.
      assert (Rabs (cos (pc_top p)) <= 1) by (apply Rabs_le; pose proof (COS_bound (pc_top p)); lra).
      assert (Rabs (sin (pc_top p)) <= 1) by (apply Rabs_le; pose proof (SIN_bound (pc_top p)); lra).
      split; nra.
    - apply not_straight_ne in S. unfold arc_eval. cbn [pe_ex pe_ey fst snd].
      pose proof (arc_point_bound sx sy p (pc_bot p) S HL) as [A B]. rewrite (arc_full_length p S) in A, B. split; assumption.
  Qed.

  Lemma gchain_end_bound : forall ps sx sy, Forall (fun p => 0 <= pc_len p) ps ->
    Rabs (fst (gchain_end ps sx sy) - sx) <= glength ps /\ Rabs (snd (gchain_end ps sx sy) - sy) <= glength ps.
  Proof.
    induction ps as [|p r IH]; intros sx sy H; cbn [gchain_end glength].
    - cbn [fst snd]. replace (sx - sx) with 0 by ring. replace (sy - sy) with 0 by ring. rewrite Rabs_R0. lra.
    - inversion H as [|p' r' HL Hr]; subst. destruct (piece_end_bound sx sy p HL) as [A B].
      destruct (IH (fst (piece_end sx sy p)) (snd (piece_end sx sy p)) Hr) as [C D]. cbn zeta.
      set (ex := fst (piece_end sx sy p)) in *. set (ey := snd (piece_end sx sy p)) in *.
      split.
      + replace (fst (gchain_end r ex ey) - sx) with ((fst (gchain_end r ex ey) - ex) + (ex - sx)) by ring.
        eapply Rle_trans; [apply Rabs_triang|]. lra.
      + replace (snd (gchain_end r ex ey) - sy) with ((snd (gchain_end r ex ey) - ey) + (ey - sy)) by ring.
        eapply Rle_trans; [apply Rabs_triang|]. lra.
  Qed.

  Lemma gchain_end_snoc : forall ps sx sy p,
    gchain_end (ps ++ [p]) sx sy =
    (pe_ex (@eval_piece R N (fst (gchain_end ps sx sy)) (snd (gchain_end ps sx sy)) p 0 0),
     pe_ey (@eval_piece R N (fst (gchain_end ps sx sy)) (snd (gchain_end ps sx sy)) p 0 0)).
  Proof. induction ps as [|q r IH]; intros sx sy p; cbn [gchain_end app]; [reflexivity | apply IH]. Qed.

  (** a point whose foot lies on the piece [p] that follows the pieces [prefix]: on a straight piece at the
      arclength [a], on an arc at the dip [phi] (arclength R |phi - top dip|), offset by [d] along the downward
      normal at the foot *)
  Definition on_piece (sx sy : R) (p : @piece R) (a phi d : R) : R * R :=
    if @is_straight R N p then (sx + a * cos (pc_top p) - d * sin (pc_top p), sy + a * sin (pc_top p) + d * cos (pc_top p))
    else (@arc_px R N sx p phi - d * sin phi, @arc_py R N sy p phi + d * cos phi).

  Definition foot_on_piece (p : @piece R) (a phi : R) : Prop :=
    if @is_straight R N p then 0 <= a <= pc_len p
    else (pc_top p <= phi <= pc_bot p) \/ (pc_bot p <= phi <= pc_top p).

  Lemma between_abs t1 t2 phi : (t1 <= phi <= t2) \/ (t2 <= phi <= t1) -> Rabs (phi - t1) <= Rabs (t2 - t1).
  Proof. intros [[A B]|[A B]]; [rewrite !Rabs_right by lra | rewrite !Rabs_left1 by lra]; lra. Qed.

  Theorem reach_and_cutoff_general : forall prefix sx sy p a phi d,
    Forall (fun q => 0 <= pc_len q) prefix -> 0 <= pc_len p -> foot_on_piece p a phi ->
    let s := gchain_end prefix sx sy in
    let q := on_piece (fst s) (snd s) p a phi d in
    Rabs (fst q - sx) <= (glength prefix + pc_len p) + Rabs d /\
    snd q - sy <= (glength prefix + pc_len p) + Rabs d.
  Proof.
    intros prefix sx sy p a phi d Hp HL Hf s q.
    destruct (gchain_end_bound prefix sx sy Hp) as [GX GY]. fold s in GX, GY.
    assert (SN : Rabs (sin phi) <= 1) by (apply Rabs_le; pose proof (SIN_bound phi); lra).
    assert (CS : Rabs (cos phi) <= 1) by (apply Rabs_le; pose proof (COS_bound phi); lra).
    assert (SN' : Rabs (sin (pc_top p)) <= 1) by (apply Rabs_le; pose proof (SIN_bound (pc_top p)); lra).
    assert (CS' : Rabs (cos (pc_top p)) <= 1) by (apply Rabs_le; pose proof (COS_bound (pc_top p)); lra).
    pose proof (Rabs_pos d) as D0.
    assert (K : Rabs (fst q - fst s) <= pc_len p + Rabs d /\ Rabs (snd q - snd s) <= pc_len p + Rabs d).
    { unfold q, on_piece, foot_on_piece in *. destruct (is_straight p) eqn:S; cbn [fst snd].
      - destruct Hf as [A0 A1]. split.
        + replace (fst s + a * cos (pc_top p) - d * sin (pc_top p) - fst s) with (a * cos (pc_top p) + - (d * sin (pc_top p))) by ring.
          eapply Rle_trans; [apply Rabs_triang|]. rewrite Rabs_Ropp, !Rabs_mult, (Rabs_right a) by lra. nra.
        + replace (snd s + a * sin (pc_top p) + d * cos (pc_top p) - snd s) with (a * sin (pc_top p) + d * cos (pc_top p)) by ring.
          eapply Rle_trans; [apply Rabs_triang|]. rewrite !Rabs_mult, (Rabs_right a) by lra. nra.
      - apply not_straight_ne in S. destruct (arc_point_bound (fst s) (snd s) p phi S HL) as [A B].
        pose proof (between_abs _ _ _ Hf) as Bt. pose proof (arc_full_length p S) as FL.
        assert (RP : 0 <= @arc_radius R N p).
        { unfold arc_radius. change (@fdiv R N) with Rdiv. change (@fabs R N) with Rabs. change (@fsub R N) with Rminus.
          apply Rmult_le_pos; [exact HL|]. apply Rlt_le, Rinv_0_lt_compat, Rabs_pos_lt. intro E0; apply S; lra. }
        assert (AL : @arc_radius R N p * Rabs (phi - pc_top p) <= pc_len p) by (rewrite <- FL; nra).
        split.
        + replace (@arc_px R N (fst s) p phi - d * sin phi - fst s) with ((@arc_px R N (fst s) p phi - fst s) + - (d * sin phi)) by ring.
          eapply Rle_trans; [apply Rabs_triang|]. rewrite Rabs_Ropp, Rabs_mult. nra.
        + replace (@arc_py R N (snd s) p phi + d * cos phi - snd s) with ((@arc_py R N (snd s) p phi - snd s) + d * cos phi) by ring.
          eapply Rle_trans; [apply Rabs_triang|]. rewrite Rabs_mult. nra. }
    destruct K as [KX KY]. split.
    - replace (fst q - sx) with ((fst q - fst s) + (fst s - sx)) by ring. eapply Rle_trans; [apply Rabs_triang|]. lra.
    - pose proof (Rle_abs (snd q - snd s)). pose proof (Rle_abs (snd s - sy)). lra.
  Qed.
End ArcReach.
