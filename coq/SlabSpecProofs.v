(** * SlabSpecProofs: over the reals the planar specification is the signed normal distance to, and the
    arclength along, a chain of straight lines and circular arcs whose dip varies linearly. *)
From Coq Require Import Reals Lra Lia List ZArith Bool Psatz.
From WB Require Import Num Base RNum SlabSpec.
Import ListNotations.
Local Open Scope R_scope.

Section SSP.
  Variable sp : special.
  Local Existing Instance Rnum.
  Let N := Rnum sp.

  Lemma sc1 th : sin th * sin th + cos th * cos th = 1.
  Proof. pose proof (sin2_cos2 th) as H. unfold Rsqr in H. exact H. Qed.

  (** ** straight piece *)
  Section Straight.
    Variables sx sy L th a d : R.
    Let p : @piece R := {| pc_len := L; pc_top := th; pc_bot := th |}.
    (** the point with arclength [a] along the line and offset [d] along the downward normal *)
    Let u := sx + a * cos th - d * sin th.
    Let v := sy + a * sin th + d * cos th.

    Theorem straight_coordinates :
      pe_dist (@straight_eval R N sx sy p u v) = d /\ pe_along (@straight_eval R N sx sy p u v) = a /\
      (pe_ok (@straight_eval R N sx sy p u v) = true <-> 0 <= a <= L).
    Proof.
      assert (A : (u - sx) * cos th + (v - sy) * sin th = a).
      { unfold u, v. transitivity (a * (sin th * sin th + cos th * cos th)); [ring | rewrite sc1; ring]. }
      assert (D : (u - sx) * - sin th + (v - sy) * cos th = d).
      { unfold u, v. transitivity (d * (sin th * sin th + cos th * cos th)); [ring | rewrite sc1; ring]. }
      unfold straight_eval, nrm_x, nrm_y. cbn [pe_dist pe_along pe_ok pc_top pc_len p].
      change (@fsin R N) with sin. change (@fcos R N) with cos. change (@fmul R N) with Rmult.
      change (@fadd R N) with Rplus. change (@fsub R N) with Rminus. change (@fopp R N) with Ropp.
      change (@fle R N) with Rleb. change (@f0 R N) with 0.
      rewrite A, D. split; [reflexivity | split; [reflexivity|]].
      destruct (Rleb_spec 0 a); destruct (Rleb_spec a L); cbn; split; intros; try discriminate; try lra; reflexivity.
    Qed.

    (** the foot is the nearest point of the line: no point of the line is closer than |d| *)
    Theorem straight_nearest : forall a',
      d * d <= (u - (sx + a' * cos th)) * (u - (sx + a' * cos th)) + (v - (sy + a' * sin th)) * (v - (sy + a' * sin th)).
    Proof.
      intros a'. unfold u, v.
      replace ((sx + a * cos th - d * sin th - (sx + a' * cos th)) * (sx + a * cos th - d * sin th - (sx + a' * cos th)) +
               (sy + a * sin th + d * cos th - (sy + a' * sin th)) * (sy + a * sin th + d * cos th - (sy + a' * sin th)))
        with (((a - a') * (a - a') + d * d) * (sin th * sin th + cos th * cos th)) by ring.
      rewrite sc1. pose proof (Rle_0_sqr (a - a')) as Q. unfold Rsqr in Q. lra.
    Qed.

    (** the next piece starts where this one ends: at arclength L on the line *)
    Theorem straight_end :
      pe_ex (@straight_eval R N sx sy p u v) = sx + L * cos th /\ pe_ey (@straight_eval R N sx sy p u v) = sy + L * sin th.
    Proof. split; reflexivity. Qed.
  End Straight.

  (** ** circular arc: dip varying linearly from [t1] to [t2] over the length [L] *)
  Section Arc.
    Variables sx sy L t1 t2 : R.
    Hypothesis HL : 0 < L.
    Hypothesis Ht1 : 0 < t1 < PI.
    Hypothesis Ht2 : 0 < t2 < PI.
    Hypothesis Hne : t1 <> t2.
    Let p : @piece R := {| pc_len := L; pc_top := t1; pc_bot := t2 |}.
    Let sg := @arc_sgn R N p.
    Let Rr := @arc_radius R N p.

    Lemma sg_cases : (t1 < t2 /\ sg = 1) \/ (t2 < t1 /\ sg = -1).
    Proof.
      unfold sg, arc_sgn. cbn [pc_top pc_bot p]. change (@flt R N) with Rltb.
      destruct (Rltb_spec t1 t2); [left; split; [assumption|reflexivity] | right; split; [lra|reflexivity]].
    Qed.
    Lemma sg_sq : sg * sg = 1.
    Proof. destruct sg_cases as [[_ H]|[_ H]]; rewrite H; ring. Qed.

    Lemma Rr_eq : Rr = L / Rabs (t2 - t1).
    Proof. reflexivity. Qed.
    Lemma Rr_pos : 0 < Rr.
    Proof. rewrite Rr_eq. apply Rdiv_lt_0_compat; [exact HL|]. apply Rabs_pos_lt. lra. Qed.

    (** the arc starts at the start point, and its tangent at the parameter [th] dips with angle [th]:
        the velocity with respect to the dip angle is sg * R * (cos th, sin th), so that the arclength
        between the dips t1 and phi is R * |phi - t1| and the dip varies linearly with arclength *)
    Theorem arc_starts_at_start : @arc_px R N sx p t1 = sx /\ @arc_py R N sy p t1 = sy.
    Proof.
      unfold arc_px, arc_py, arc_cx, arc_cy. cbn [pc_top p].
      change (@fadd R N) with Rplus. change (@fsub R N) with Rminus. change (@fmul R N) with Rmult.
      split; ring.
    Qed.

    Theorem arc_tangent th :
      derivable_pt_lim (fun x => @arc_px R N sx p x) th (sg * Rr * cos th) /\
      derivable_pt_lim (fun x => @arc_py R N sy p x) th (sg * Rr * sin th).
    Proof.
      unfold arc_px, arc_py, nrm_x, nrm_y.
      change (@fsub R N) with Rminus. change (@fmul R N) with Rmult. change (@fopp R N) with Ropp.
      change (@fsin R N) with sin. change (@fcos R N) with cos.
      fold sg. fold Rr. split.
      - replace (sg * Rr * cos th) with (0 - sg * Rr * (- cos th)) by ring.
        apply (derivable_pt_lim_minus (fun _ => @arc_cx R N sx p) (fun x => sg * Rr * - sin x)).
        + apply derivable_pt_lim_const.
        + apply (derivable_pt_lim_scal (fun x => - sin x) (sg * Rr) th (- cos th)).
          apply (derivable_pt_lim_opp sin). apply derivable_pt_lim_sin.
      - replace (sg * Rr * sin th) with (0 - sg * Rr * (- sin th)) by ring.
        apply (derivable_pt_lim_minus (fun _ => @arc_cy R N sy p) (fun x => sg * Rr * cos x)).
        + apply derivable_pt_lim_const.
        + apply (derivable_pt_lim_scal cos (sg * Rr) th (- sin th)). apply derivable_pt_lim_cos.
    Qed.

    Section Point.
      (** the point whose foot is the arc point of dip [phi] (between t1 and t2), offset by [d] along
          the downward normal there; it has not passed the centre of the circle *)
      Variables phi d : R.
      Hypothesis Hphi : (t1 <= phi <= t2) \/ (t2 <= phi <= t1).
      Hypothesis Hd : 0 < Rr - sg * d.
      Let u := @arc_px R N sx p phi + d * - sin phi.
      Let v := @arc_py R N sy p phi + d * cos phi.

      Lemma w_eq : u - @arc_cx R N sx p = sg * (Rr - sg * d) * sin phi /\
                   v - @arc_cy R N sy p = - (sg * (Rr - sg * d) * cos phi).
      Proof.
        unfold u, v, arc_px, arc_py, nrm_x, nrm_y.
        change (@fsub R N) with Rminus. change (@fmul R N) with Rmult. change (@fopp R N) with Ropp.
        change (@fsin R N) with sin. change (@fcos R N) with cos. fold sg. fold Rr.
        pose proof sg_sq as S. split.
        - transitivity (sg * Rr * sin phi - (sg * sg) * d * sin phi); [rewrite S; ring | ring].
        - transitivity (- (sg * Rr * cos phi) + (sg * sg) * d * cos phi); [rewrite S; ring | ring].
      Qed.

      Theorem arc_coordinates : special_laws sp ->
        pe_dist (@arc_eval R N sx sy p u v) = d /\
        pe_along (@arc_eval R N sx sy p u v) = Rr * Rabs (phi - t1) /\
        pe_ok (@arc_eval R N sx sy p u v) = true.
      Proof.
        intros Law. destruct w_eq as [Wx Wy]. pose proof sg_sq as S. pose proof Rr_pos as RP.
        set (rho := Rr - sg * d) in *.
        unfold arc_eval. cbn [pe_dist pe_along pe_ok pc_top pc_bot pc_len p].
        fold sg. fold Rr.
        change (@fsub R N) with Rminus. change (@fmul R N) with Rmult. change (@fopp R N) with Ropp.
        change (@fadd R N) with Rplus. change (@fdiv R N) with Rdiv. change (@fsqrt R N) with sqrt.
        change (@fatan2 R N) with (sp_atan2 sp). change (@flt R N) with Rltb. change (@fle R N) with Rleb.
        change (@fpi R N) with PI. change (@f0 R N) with 0. change (@f1 R N) with 1.
        rewrite Wx, Wy.
        assert (E1 : sg * (sg * rho * sin phi) = rho * sin phi) by (transitivity ((sg * sg) * rho * sin phi); [ring | rewrite S; ring]).
        assert (E2 : - (sg * - (sg * rho * cos phi)) = rho * cos phi) by (transitivity ((sg * sg) * rho * cos phi); [ring | rewrite S; ring]).
        rewrite E1, E2.
        assert (Hphi' : - PI < phi <= PI) by (destruct Hphi; lra).
        rewrite (atan2_polar sp Law rho phi Hd Hphi').
        assert (E3 : sg * rho * sin phi * (sg * rho * sin phi) + - (sg * rho * cos phi) * - (sg * rho * cos phi) = rho * rho).
        { transitivity ((sg * sg) * rho * rho * (sin phi * sin phi + cos phi * cos phi)); [ring | rewrite S, sc1; ring]. }
        rewrite E3. rewrite sqrt_square by lra.
        destruct (Rltb_spec (phi - t1) (- PI)) as [Hw|Hw]; [exfalso; destruct Hphi; lra|].
        split; [|split].
        - unfold rho. transitivity ((sg * sg) * d); [ring | rewrite S; ring].
        - rewrite Rr_eq. destruct Hphi as [[H1 H2]|[H1 H2]].
          + rewrite (Rabs_right (t2 - t1)) by lra. rewrite (Rabs_right (phi - t1)) by lra. field. lra.
          + rewrite (Rabs_left (t2 - t1)) by lra.
            destruct (Req_dec phi t1) as [He|He].
            * rewrite He. replace (t1 - t1) with 0 by ring. rewrite Rabs_R0. field. lra.
            * rewrite (Rabs_left (phi - t1)) by lra. field. lra.
        - assert (Fr : 0 <= (phi - t1) / (t2 - t1) <= 1).
          { destruct Hphi as [[H1 H2]|[H1 H2]].
            - split; [apply Rmult_le_pos; [lra | left; apply Rinv_0_lt_compat; lra]|].
              apply Rmult_le_reg_r with (t2 - t1); [lra|]. unfold Rdiv. rewrite Rmult_assoc, Rinv_l by lra. lra.
            - replace ((phi - t1) / (t2 - t1)) with ((t1 - phi) / (t1 - t2)) by (field; lra).
              split; [apply Rmult_le_pos; [lra | left; apply Rinv_0_lt_compat; lra]|].
              apply Rmult_le_reg_r with (t1 - t2); [lra|]. unfold Rdiv. rewrite Rmult_assoc, Rinv_l by lra. lra. }
          destruct (Rleb_spec 0 ((phi - t1) / (t2 - t1))); [|lra].
          destruct (Rleb_spec ((phi - t1) / (t2 - t1)) 1); [reflexivity|lra].
      Qed.

      (** no point of the circle is closer to the point than |d| *)
      Theorem arc_nearest : forall psi,
        d * d <= (u - @arc_px R N sx p psi) * (u - @arc_px R N sx p psi) + (v - @arc_py R N sy p psi) * (v - @arc_py R N sy p psi).
      Proof.
        intros psi. destruct w_eq as [Wx Wy]. pose proof sg_sq as S. pose proof Rr_pos as RP.
        set (rho := Rr - sg * d) in *.
        assert (Ux : u - @arc_px R N sx p psi = sg * rho * sin phi - sg * Rr * sin psi).
        { replace (u - @arc_px R N sx p psi) with ((u - @arc_cx R N sx p) - (@arc_px R N sx p psi - @arc_cx R N sx p)) by ring.
          rewrite Wx. unfold arc_px, nrm_x. change (@fsub R N) with Rminus. change (@fmul R N) with Rmult.
          change (@fopp R N) with Ropp. change (@fsin R N) with sin. fold sg. fold Rr. ring. }
        assert (Uy : v - @arc_py R N sy p psi = - (sg * rho * cos phi) + sg * Rr * cos psi).
        { replace (v - @arc_py R N sy p psi) with ((v - @arc_cy R N sy p) - (@arc_py R N sy p psi - @arc_cy R N sy p)) by ring.
          rewrite Wy. unfold arc_py, nrm_y. change (@fsub R N) with Rminus. change (@fmul R N) with Rmult.
          change (@fcos R N) with cos. fold sg. fold Rr. ring. }
        rewrite Ux, Uy.
        assert (E : (sg * rho * sin phi - sg * Rr * sin psi) * (sg * rho * sin phi - sg * Rr * sin psi) +
                    (- (sg * rho * cos phi) + sg * Rr * cos psi) * (- (sg * rho * cos phi) + sg * Rr * cos psi)
                    = rho * rho + Rr * Rr - 2 * rho * Rr * cos (phi - psi)).
        { rewrite cos_minus.
          transitivity ((sg * sg) * (rho * rho * (sin phi * sin phi + cos phi * cos phi) + Rr * Rr * (sin psi * sin psi + cos psi * cos psi)
                                    - 2 * rho * Rr * (cos phi * cos psi + sin phi * sin psi))); [ring|].
          rewrite S, !sc1. ring. }
        rewrite E.
        assert (D2 : d * d = (Rr - rho) * (Rr - rho)).
        { unfold rho. transitivity ((sg * sg) * d * d); [rewrite S; ring | ring]. }
        rewrite D2. pose proof (COS_bound (phi - psi)) as [_ C].
        assert (0 <= rho * Rr * (1 - cos (phi - psi))) by (apply Rmult_le_pos; [apply Rmult_le_pos; lra | lra]).
        nra.
      Qed.
    End Point.

    (** the next piece starts at the arc point of dip t2, after the arclength L *)
    Theorem arc_end u v :
      pe_ex (@arc_eval R N sx sy p u v) = @arc_px R N sx p t2 /\ pe_ey (@arc_eval R N sx sy p u v) = @arc_py R N sy p t2 /\
      Rr * Rabs (t2 - t1) = L.
    Proof.
      split; [reflexivity | split; [reflexivity|]]. rewrite Rr_eq. field. apply Rabs_no_R0. lra.
    Qed.
  End Arc.

  (** ** the chain: pieces are evaluated from the end of the previous one, arclengths accumulate, and the
      answer is that of an admissible piece (foot inside the piece) of least |distance| *)
  Lemma chain_best_is_some_piece : forall (ps : list (@piece R)) sx sy done k u v best r,
    @planar_chain R N ps sx sy done k u v best = Some r ->
    best = Some r \/
    exists j sxj syj donej p, nth_error ps j = Some p /\
      pe_ok (@eval_piece R N sxj syj p u v) = true /\
      r = (pe_dist (@eval_piece R N sxj syj p u v), donej + pe_along (@eval_piece R N sxj syj p u v), (k + j)%nat,
           pe_along (@eval_piece R N sxj syj p u v) / pc_len p).
  Proof.
    induction ps as [|p ps IH]; intros sx sy done k u v best r H; cbn [planar_chain] in H; [left; exact H|].
    apply IH in H. destruct H as [H|[j [sxj [syj [donej [q [Hn [Hok Hr]]]]]]]].
    - destruct (better (eval_piece sx sy p u v) best) eqn:B.
      + right. exists 0%nat, sx, sy, done, p. split; [reflexivity|].
        unfold better in B. apply andb_prop in B. destruct B as [B _]. split; [exact B|].
        injection H as H. rewrite <- H. rewrite Nat.add_0_r. reflexivity.
      + left. exact H.
    - right. exists (S j), sxj, syj, donej, q. split; [exact Hn|]. split; [exact Hok|].
      rewrite Hr. replace (k + S j)%nat with (S k + j)%nat by lia. reflexivity.
  Qed.

  (** a point with no admissible piece has no distance *)
  Lemma chain_none : forall (ps : list (@piece R)) sx sy done k u v,
    @planar_chain R N ps sx sy done k u v None = None ->
    forall r, @planar_chain R N ps sx sy done k u v None <> Some r.
  Proof. intros ps sx sy done k u v H r H'. rewrite H in H'. discriminate. Qed.
End SSP.

(** ** the depth cut-off of the acceleration shortcuts (property C07) is sufficient for chains of straight
    pieces: a point at arclength [a] of a piece and normal offset [d] (0 <= d) lies no deeper than the start of
    the surface + the length of the chain up to that arclength + d.  Hence a member of the feature (along <= total
    length, distance <= thickness) has depth <= min depth + total length + thickness. *)
Section Cutoff.
  Variable sp : special.
  Local Existing Instance Rnum.
  Let N := Rnum sp.

  (** depth of the end of a chain of straight pieces (length, dip) that starts at depth [sy] *)
  Fixpoint chain_end_depth (ps : list (R * R)) (sy : R) : R :=
    match ps with
    | [] => sy
    | (L, th) :: r => chain_end_depth r (sy + L * sin th)
    end.
  Fixpoint chain_length (ps : list (R * R)) : R :=
    match ps with [] => 0 | (L, _) :: r => L + chain_length r end.

  Lemma chain_end_depth_bound : forall ps sy, (forall L th, In (L, th) ps -> 0 <= L) ->
    chain_end_depth ps sy <= sy + chain_length ps.
  Proof.
    induction ps as [|[L th] r IH]; intros sy H; cbn [chain_end_depth chain_length]; [lra|].
    assert (HL : 0 <= L) by (apply (H L th); left; reflexivity).
    assert (IH' := IH (sy + L * sin th) (fun L' th' Hin => H L' th' (or_intror Hin))).
    pose proof (SIN_bound th) as [_ S1].
    assert (L * sin th <= L) by nra. lra.
  Qed.

  (** the end depth computed by the specification's straight pieces is [chain_end_depth] *)
  Lemma spec_end_depth sx sy L th u v :
    pe_ey (@straight_eval R N sx sy {| pc_len := L; pc_top := th; pc_bot := th |} u v) = sy + L * sin th.
  Proof. reflexivity. Qed.

  Theorem cutoff_sufficient_straight : forall prefix sy L th a d,
    (forall L' th', In (L', th') prefix -> 0 <= L') -> 0 <= a <= L -> 0 <= d ->
    let start := chain_end_depth prefix sy in
    start + a * sin th + d * cos th <= sy + (chain_length prefix + L) + d.
  Proof.
    intros prefix sy L th a d Hp [Ha0 Ha1] Hd start.
    pose proof (chain_end_depth_bound prefix sy Hp) as B. fold start in B.
    pose proof (SIN_bound th) as [_ S1]. pose proof (COS_bound th) as [_ C1].
    assert (a * sin th <= a) by nra. assert (d * cos th <= d) by nra. lra.
  Qed.
End Cutoff.

(** ** horizontal reach (property C07, surface bounding box): a point at arclength [a] of a piece after the
    pieces [prefix], offset [d] along the normal, lies no further from the trench (horizontally) than the length
    of the chain up to there + |d|. *)
Section Reach.
  Fixpoint chain_end_x (ps : list (R * R)) (sx : R) : R :=
    match ps with
    | [] => sx
    | (L, th) :: r => chain_end_x r (sx + L * cos th)
    end.

  Lemma chain_end_x_bound : forall ps sx, (forall L th, In (L, th) ps -> 0 <= L) ->
    Rabs (chain_end_x ps sx - sx) <= chain_length ps.
  Proof.
    induction ps as [|[L th] r IH]; intros sx H; cbn [chain_end_x chain_length].
    - replace (sx - sx) with 0 by ring. rewrite Rabs_R0. lra.
    - assert (HL : 0 <= L) by (apply (H L th); left; reflexivity).
      assert (IH' := IH (sx + L * cos th) (fun L' th' Hin => H L' th' (or_intror Hin))).
      replace (chain_end_x r (sx + L * cos th) - sx) with ((chain_end_x r (sx + L * cos th) - (sx + L * cos th)) + L * cos th) by ring.
      eapply Rle_trans; [apply Rabs_triang|].
      assert (Rabs (L * cos th) <= L).
      { rewrite Rabs_mult, (Rabs_right L) by lra. pose proof (COS_bound th) as [C0 C1].
        assert (Rabs (cos th) <= 1) by (apply Rabs_le; lra). nra. }
      lra.
  Qed.

  Theorem reach_sufficient_straight : forall prefix sx L th a d,
    (forall L' th', In (L', th') prefix -> 0 <= L') -> 0 <= a <= L ->
    Rabs (chain_end_x prefix sx + a * cos th - d * sin th - sx) <= (chain_length prefix + L) + Rabs d.
  Proof.
    intros prefix sx L th a d Hp [Ha0 Ha1].
    pose proof (chain_end_x_bound prefix sx Hp) as B.
    replace (chain_end_x prefix sx + a * cos th - d * sin th - sx)
      with ((chain_end_x prefix sx - sx) + (a * cos th + - (d * sin th))) by ring.
    eapply Rle_trans; [apply Rabs_triang|].
    assert (A1 : Rabs (a * cos th + - (d * sin th)) <= a + Rabs d).
    { eapply Rle_trans; [apply Rabs_triang|]. rewrite Rabs_Ropp, !Rabs_mult, (Rabs_right a) by lra.
      pose proof (COS_bound th) as [C0 C1]. pose proof (SIN_bound th) as [S0 S1].
      assert (Rabs (cos th) <= 1) by (apply Rabs_le; lra). assert (Rabs (sin th) <= 1) by (apply Rabs_le; lra).
      pose proof (Rabs_pos d). nra. }
    lra.
  Qed.
End Reach.
