(** * TotalProofs: the world-level evaluator is total, and a predicate that holds for every initial
    value and is preserved by every model holds for every entry of the answer (property C13). *)
From Coq Require Import List Arith Lia Bool ZArith.
From WB Require Import Num Base Props World WorldProofs WorldProofs2.
Import ListNotations.

Section Total.
  Context {F : Type} {NF : Num F}.
  Variable P : F -> Prop.      (* think: "is a finite number" *)

  Lemma Forall_firstn n (l : list F) : Forall P l -> Forall P (firstn n l).
  Proof. revert l; induction n as [|n IH]; intros l H; cbn; [constructor|]. destruct l; [constructor|]. inversion H; subst. constructor; auto. Qed.
  Lemma Forall_skipn n (l : list F) : Forall P l -> Forall P (skipn n l).
  Proof. revert l; induction n as [|n IH]; intros l H; cbn; [exact H|]. destruct l; [constructor|]. inversion H; subst. auto. Qed.
  Lemma Forall_slice off n (l : list F) : Forall P l -> Forall P (slice off n l).
  Proof. intros H. unfold slice. apply Forall_firstn, Forall_skipn, H. Qed.
  Lemma Forall_blit off (b l : list F) : Forall P b -> Forall P l -> Forall P (blit off b l).
  Proof. intros Hb Hl. unfold blit. apply Forall_app. split; [apply Forall_firstn, Hl|]. apply Forall_app. split; [exact Hb | apply Forall_skipn, Hl]. Qed.
  Lemma Forall_repeat (x : F) n : P x -> Forall P (repeat x n).
  Proof. intros H. induction n; cbn; constructor; auto. Qed.

  (** every model maps blocks satisfying P to blocks satisfying P *)
  Definition feature_preserves (f : feature) : Prop :=
    forall q wt p t blk, Forall P blk -> Forall P (fst (ft_paint f q wt p t blk)).

  Lemma paint_slot_preserves f q wt st pe : feature_preserves f -> Forall P (fst st) -> Forall P (fst (paint_slot f q wt st pe)).
  Proof.
    intros Hf Hs. unfold paint_slot. destruct st as [out t]. destruct pe as [p off].
    destruct (ft_paint f q wt p t (slice off (width p) out)) as [b t'] eqn:E. cbn [fst] in *.
    apply Forall_blit; [|exact Hs].
    specialize (Hf q wt p t (slice off (width p) out) (Forall_slice _ _ _ Hs)). rewrite E in Hf. exact Hf.
  Qed.

  Lemma fold_paint_preserves f q wt regs : feature_preserves f -> forall st, Forall P (fst st) -> Forall P (fst (fold_left (paint_slot f q wt) regs st)).
  Proof.
    intros Hf. induction regs as [|pe r IH]; intros st Hs; cbn [fold_left]; [exact Hs|].
    apply IH. apply paint_slot_preserves; assumption.
  Qed.

  Lemma feature_apply_preserves q wt regs st f : feature_preserves f -> Forall P (fst st) -> Forall P (fst (feature_apply q wt regs st f)).
  Proof. intros Hf Hs. unfold feature_apply. destruct (ft_covers f q); [apply fold_paint_preserves; assumption | exact Hs]. Qed.

  Lemma init_block_preserves w g depth p :
    P f0 -> P (- f1)%F -> P (w_Ts w) -> P (adiabat w g depth) -> Forall P (init_block w g depth p).
  Proof.
    intros H0 H1 Hs Ha. destruct p; cbn [init_block].
    - constructor; [destruct (forced w depth); assumption | constructor].
    - constructor; [exact H0 | constructor].
    - apply Forall_repeat, H0.
    - constructor; [exact H1 | constructor].
    - repeat constructor; exact H0.
  Qed.

  Lemma init_from_preserves w g depth : P f0 -> P (- f1)%F -> P (w_Ts w) -> P (adiabat w g depth) ->
    forall ps out, Forall P out -> Forall P (fst (init_from w g depth ps out)).
  Proof.
    intros H0 H1 Hs Ha. induction ps as [|p r IH]; intros out Ho; cbn [init_from]; [exact Ho|].
    destruct (init_from w g depth r (out ++ init_block w g depth p)) as [o regs] eqn:E. cbn [fst].
    specialize (IH (out ++ init_block w g depth p)). rewrite E in IH. cbn [fst] in IH. apply IH.
    apply Forall_app. split; [exact Ho | apply init_block_preserves; assumption].
  Qed.

  (** the answer of a query is an exception or a vector all of whose entries satisfy P, provided the
      background values do and every feature's models preserve P: the slot machinery neither invents
      a value nor leaves a slot unwritten *)
  Lemma properties3d_preserving (w : world) pos depth ps t :
    P f0 -> P (- f1)%F -> P (w_Ts w) -> P (adiabat w (w_gravity w) depth) ->
    Forall feature_preserves (w_features w) ->
    properties3d w pos depth ps t = Err Throw \/
    exists out t', properties3d w pos depth ps t = Ok (out, t') /\ Forall P out.
  Proof.
    intros H0 H1 Hs Ha Hf. unfold properties3d, properties_at. cbn [mk_query q_depth q_g].
    set (wt := fun _ : unit => world_temperature w (mk_query w pos depth)).
    destruct (init_from w (w_gravity w) depth ps []) as [out0 regs] eqn:E.
    match goal with |- context [if ?c then _ else _] => destruct c end; [left; reflexivity|].
    right.
    set (q := mk_query w pos depth) in *.
    assert (Hout0 : Forall P out0).
    { pose proof (init_from_preserves w (w_gravity w) depth H0 H1 Hs Ha ps [] (Forall_nil _)) as H. rewrite E in H. exact H. }
    assert (G : forall fs st, Forall feature_preserves fs -> Forall P (fst st) -> Forall P (fst (fold_left (feature_apply q wt regs) fs st))).
    { induction fs as [|f r IH]; intros st Hfs Hst; cbn [fold_left]; [exact Hst|].
      inversion Hfs; subst. apply IH; [assumption|]. apply feature_apply_preserves; assumption. }
    destruct (fold_left (feature_apply q wt regs) (w_features w) (out0, t)) as [out t'] eqn:E2.
    exists out, t'. split; [reflexivity|].
    specialize (G (w_features w) (out0, t) Hf Hout0). rewrite E2 in G. exact G.
  Qed.

  (** the answer of a query is an exception or a vector of the announced size all of whose entries
      satisfy P, provided the background values do and every feature's models preserve P: the slot
      machinery neither invents a value nor leaves a slot unwritten, and it cannot fail in any other way *)
  Theorem properties3d_total_and_preserving (w : world) pos depth ps t :
    world_ok w -> P f0 -> P (- f1)%F -> P (w_Ts w) -> P (adiabat w (w_gravity w) depth) ->
    Forall feature_preserves (w_features w) ->
    properties3d w pos depth ps t = Err Throw \/
    exists out t', properties3d w pos depth ps t = Ok (out, t') /\ Forall P out /\ length out = output_size ps.
  Proof.
    intros WO H0 H1 Hs Ha Hf.
    destruct (properties3d_preserving w pos depth ps t H0 H1 Hs Ha Hf) as [H|[out [t' [H HP]]]]; [left; exact H|].
    right. exists out, t'. split; [exact H|]. split; [exact HP|].
    exact (properties3d_length w pos depth ps t out t' WO H).
  Qed.
End Total.
