(** * Quat: the quaternion routines of include/glm/glm.h used to average two grain orientations
    (quat_cast, slerp, mat3_cast).  Matrices are row-major lists of 9 numbers. *)
From Coq Require Import ZArith List Bool.
From WB Require Import Num.
Import ListNotations.

Section Quat.
  Context {F : Type} {NF : Num F}.
  Local Open Scope num_scope.

  Definition quat : Type := F * F * F * F.     (* w, x, y, z *)
  Definition mget (m : list F) (i j : nat) : F := nth (3 * i + j) m f0.

  Definition quat_cast (m : list F) : quat :=
    let m00 := mget m 0 0 in let m11 := mget m 1 1 in let m22 := mget m 2 2 in
    let fx := (m00 - m11) - m22 in
    let fy := (m11 - m00) - m22 in
    let fz := (m22 - m00) - m11 in
    let fw := (m00 + m11) + m22 in
    let '(big0, i0) := (fw, 0%nat) in
    let '(big1, i1) := if big0 <? fx then (fx, 1%nat) else (big0, i0) in
    let '(big2, i2) := if big1 <? fy then (fy, 2%nat) else (big1, i1) in
    let '(big3, i3) := if big2 <? fz then (fz, 3%nat) else (big2, i2) in
    let bv := fsqrt (big3 + f1) * fhalf in
    let mult := fdec 25 (-2) / bv in
    match i3 with
    | 0%nat => (bv, (mget m 1 2 - mget m 2 1) * mult, (mget m 2 0 - mget m 0 2) * mult, (mget m 0 1 - mget m 1 0) * mult)
    | 1%nat => ((mget m 1 2 - mget m 2 1) * mult, bv, (mget m 0 1 + mget m 1 0) * mult, (mget m 2 0 + mget m 0 2) * mult)
    | 2%nat => ((mget m 2 0 - mget m 0 2) * mult, (mget m 0 1 + mget m 1 0) * mult, bv, (mget m 1 2 + mget m 2 1) * mult)
    | _ => ((mget m 0 1 - mget m 1 0) * mult, (mget m 2 0 + mget m 0 2) * mult, (mget m 1 2 + mget m 2 1) * mult, bv)
    end.

  Definition mat3_cast (q : quat) : list F :=
    let '(w, x, y, z) := q in
    let qxx := x * x in let qyy := y * y in let qzz := z * z in
    let qxz := x * z in let qxy := x * y in let qyz := y * z in
    let qwx := w * x in let qwy := w * y in let qwz := w * z in
    [ f1 - (f2 * (qyy + qzz)); f2 * (qxy + qwz); f2 * (qxz - qwy);
      f2 * (qxy - qwz); f1 - (f2 * (qxx + qzz)); f2 * (qyz + qwx);
      f2 * (qxz + qwy); f2 * (qyz - qwx); f1 - (f2 * (qxx + qyy)) ].

  Definition qmix (x y a : F) : F := (x * (f1 - a)) + (y * a).

  Definition slerp (x y : quat) (a : F) : quat :=
    let '(xw, xx, xy, xz) := x in
    let '(yw, yx, yy, yz) := y in
    let cos0 := (((xw * yw) + (xx * yx)) + (xy * yy)) + (xz * yz) in
    let '(zw, zx, zy, zz, cosT) := if cos0 <? f0 then (- yw, - yx, - yy, - yz, - cos0) else (yw, yx, yy, yz, cos0) in
    if (f1 - feps) <? cosT then (qmix xw zw a, qmix xx zx a, qmix xy zy a, qmix xz zz a)
    else
      let angle := facos cosT in
      let s0 := fsin ((f1 - a) * angle) in
      let s1 := fsin (a * angle) in
      let sa := fsin angle in
      (((xw * s0) + (zw * s1)) / sa, ((xx * s0) + (zx * s1)) / sa, ((xy * s0) + (zy * s1)) / sa, ((xz * s0) + (zz * s1)) / sa).

  (** the orientation written for one grain when two sections are combined with the fraction [a] *)
  Definition average_rotation (m1 m2 : list F) (a : F) : list F := mat3_cast (slerp (quat_cast m1) (quat_cast m2) a).
  (** Utilities::euler_angles_to_rotation_matrix (utilities.cc:1150-1172): z-x-z Euler angles in degrees, row-major *)
  Definition euler_matrix (phi1_d theta_d phi2_d : F) : list F :=
    let dtr := fpi / fofZ 180 in
    let phi1 := phi1_d * dtr in let theta := theta_d * dtr in let phi2 := phi2_d * dtr in
    [ (fcos phi2 * fcos phi1) - ((fcos theta * fsin phi1) * fsin phi2);
      ((- fcos phi2) * fsin phi1) - ((fcos theta * fcos phi1) * fsin phi2);
      (- fsin phi2) * fsin theta;
      (fsin phi2 * fcos phi1) + ((fcos theta * fsin phi1) * fcos phi2);
      ((- fsin phi2) * fsin phi1) + ((fcos theta * fcos phi1) * fcos phi2);
      fcos phi2 * fsin theta;
      (- fsin theta) * fsin phi1;
      (- fsin theta) * fcos phi1;
      fcos theta ].
End Quat.
