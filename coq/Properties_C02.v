(** * C02 - features paint in file order; only covering features matter; operations compose. *)
From Coq Require Import List Arith NArith Bool Lia.
From WB Require Import Num Base Props World WorldProofs WorldProofs2 Kernels Features FeaturesProofs.
Import ListNotations.

Section C02.
  Context {F : Type} {NF : Num F}.
  Notation world := (@world F).
  Notation feature := (@feature F).
  Local Open Scope num_scope.

  Definition with_features (w : world) (fs : list feature) : world :=
    {| w_cs := w_cs w; w_Tp := w_Tp w; w_Ts := w_Ts w; w_alpha := w_alpha w; w_cp := w_cp w;
       w_force := w_force w; w_gravity := w_gravity w; w_cross := w_cross w; w_features := fs |}.

  Lemma init_from_features (w : world) fs g d ps : forall out,
    init_from (with_features w fs) g d ps out = init_from w g d ps out.
  Proof.
    induction ps as [|p ps IH]; intros out; [reflexivity|]. cbn [init_from].
    replace (init_block (with_features w fs) g d p) with (init_block w g d p) by (destruct p; reflexivity).
    rewrite IH. replace (registered (with_features w fs) d p) with (registered w d p) by (destruct p; reflexivity).
    reflexivity.
  Qed.

  Lemma properties_at_features (w : world) fs q wt ps t :
    properties_at (with_features w fs) q wt ps t =
    (let '(out0, regs) := init_from w (q_g q) (q_depth q) ps [] in
     if existsb (fun f => ft_cov_err f q || (ft_covers f q && existsb (fun pe => ft_paint_err f q wt (fst pe)) regs)) fs
     then Err Throw else Ok (eval_features fs q wt regs (out0, t))).
  Proof. unfold properties_at. rewrite init_from_features. reflexivity. Qed.

  Lemma properties_at_delete (w : world) fs1 f fs2 q wt ps t :
    ft_covers f q = false -> ft_cov_err f q = false ->
    properties_at (with_features w (fs1 ++ f :: fs2)) q wt ps t = properties_at (with_features w (fs1 ++ fs2)) q wt ps t.
  Proof.
    intros C E. rewrite !properties_at_features.
    destruct (init_from w _ _ ps []) as [out0 regs].
    rewrite !existsb_app. cbn [existsb]. rewrite C, E. cbn [orb andb].
    rewrite eval_delete by exact C. reflexivity.
  Qed.

  (** the temperature the water content models call back for does not see the deleted feature either *)
  Lemma world_temperature_delete (w : world) fs1 f fs2 q :
    ft_covers f q = false -> ft_cov_err f q = false ->
    world_temperature (with_features w (fs1 ++ f :: fs2)) q = world_temperature (with_features w (fs1 ++ fs2)) q.
  Proof. intros C E. unfold world_temperature. rewrite (properties_at_delete w fs1 f fs2 q _ _ _ C E). reflexivity. Qed.

  (** a feature that does not contain the point has no influence: deleting it changes nothing *)
  Theorem C02_delete : forall (w : world) fs1 f fs2 pos depth ps t,
    ft_covers f (mk_query w pos depth) = false -> ft_cov_err f (mk_query w pos depth) = false ->
    properties3d (with_features w (fs1 ++ f :: fs2)) pos depth ps t =
    properties3d (with_features w (fs1 ++ fs2)) pos depth ps t.
  Proof.
    intros w fs1 f fs2 pos depth ps t C E. unfold properties3d.
    change (mk_query (with_features w (fs1 ++ f :: fs2)) pos depth) with (mk_query w pos depth).
    change (mk_query (with_features w (fs1 ++ fs2)) pos depth) with (mk_query w pos depth).
    rewrite (world_temperature_delete w fs1 f fs2 _ C E).
    apply properties_at_delete; assumption.
  Qed.

  (** the answer is the fold over the covering features only, in file order; hence any two feature
      lists with the same sub-list of covering features (any permutation / deletion of the others)
      give the same values *)
  Theorem C02_covering_fold : forall fs (q : @query F) wt regs st,
    eval_features fs q wt regs st = eval_features (filter (fun f => ft_covers f q) fs) q wt regs st.
  Proof. exact eval_filter. Qed.

  Theorem C02_permute : forall fs fs' (q : @query F) wt regs st,
    filter (fun f => ft_covers f q) fs = filter (fun f => ft_covers f q) fs' ->
    eval_features fs q wt regs st = eval_features fs' q wt regs st.
  Proof. intros fs fs' q wt regs st H. rewrite (eval_filter fs), (eval_filter fs'), H. reflexivity. Qed.

  (** the reported tag is that of the last feature containing the point, -1 if there is none *)
  Theorem C02_tag_last : forall (w : world) pos depth ps t r t' i,
    world_ok w -> world_no_random w -> Forall paints_tag (w_features w) ->
    properties3d w pos depth ps t = Ok (r, t') ->
    nth_error ps i = Some PTag ->
    slice (nth i (offsets ps) 0) 1 r =
    match last_covering (w_features w) (mk_query w pos depth) with
    | Some f => [ft_tag f]
    | None => [- f1]
    end.
  Proof.
    intros w pos depth ps t r t' i WO WN WT E Hp.
    destruct (properties3d_blocks w pos depth ps t r t' WO WN E) as (_ & _ & B).
    assert (Hi : i < length ps) by (apply nth_error_Some; congruence).
    unfold offsets. rewrite (offsets_from_nth ps 0 i Hi). cbn [Nat.add].
    change 1 with (width PTag). rewrite (B i PTag Hp).
    unfold block_value. cbn [registered]. rewrite (block_eval_tag _ _ _ WT). reflexivity.
  Qed.

  (** ** operations (feature_utilities.h) *)
  Theorem C02_op_replace : forall old new : F,
    apply_op OReplace old new = new /\ apply_op OReplaceDefinedOnly old new = new.
  Proof. intros; split; reflexivity. Qed.

  Theorem C02_op_add_subtract : forall old new : F,
    apply_op OAdd old new = old + new /\ apply_op OSubtract old new = old - new.
  Proof. intros; split; reflexivity. Qed.

  (** uniform composition inside its range: a listed composition gets [op old fraction]; an unlisted
      one is cleared by "replace" and left untouched by every other operation *)
  Theorem C02_composition_listed : forall tape sph (q : @query F) wt mn mx o comps fracs c f old t,
    in_range (ds_min mn) (ds_max mx) (q_depth q) = true ->
    in_range (dsl sph q mn) (dsl sph q mx) (q_depth q) = true ->
    find_comp comps fracs c = Some f ->
    comp_eval tape sph q wt (CUniform mn mx o comps fracs) c (old, t) = (apply_op o old f, t).
  Proof. intros * H1 H2 H3. cbn [comp_eval]. now rewrite H1, H2, H3. Qed.

  Theorem C02_composition_unlisted : forall tape sph (q : @query F) wt mn mx o comps fracs c old t,
    in_range (ds_min mn) (ds_max mx) (q_depth q) = true ->
    in_range (dsl sph q mn) (dsl sph q mx) (q_depth q) = true ->
    find_comp comps fracs c = None ->
    comp_eval tape sph q wt (CUniform mn mx o comps fracs) c (old, t) =
    (match o with OReplace => f0 | _ => old end, t).
  Proof. intros * H1 H2 H3. cbn [comp_eval]. now rewrite H1, H2, H3. Qed.

  (** a stack of models is the left fold of their operations *)
  Theorem C02_model_stack : forall g k sph (q : @query F) mnl mxl ms m old,
    fold_left (fun o m => temp_eval g k sph q mnl mxl m o) (ms ++ [m]) old =
    temp_eval g k sph q mnl mxl m (fold_left (fun o m => temp_eval g k sph q mnl mxl m o) ms old).
  Proof. intros. rewrite fold_left_app. reflexivity. Qed.

  (** a feature without models of a kind leaves temperature, composition and grains as they were *)
  Theorem C02_no_models : forall g tape sph (a : @area_feature F) (q : @query F) wt t blk c k,
    (af_temp a = [] -> length blk = 1 -> fst (area_paint g tape sph a q wt PTemp t blk) = blk) /\
    (af_comp a = [] -> length blk = 1 -> fst (area_paint g tape sph a q wt (PComp c) t blk) = blk) /\
    (af_grains a = [] -> fst (area_paint g tape sph a q wt (PGrains c k) t blk) = blk).
  Proof.
    intros. repeat split; intros H; unfold area_paint; rewrite H; cbn [fold_left fst]; try reflexivity;
      intros L; destruct blk as [|x [|y l]]; try discriminate; reflexivity.
  Qed.
End C02.

(** the clause "a feature without models of a kind leaves those values as they were" is REFUTED for the grains of slabs
    and faults (known finding D4): the section interpolation casts both orientation blocks to quaternions and back, and
    two all-zero blocks (nothing painted, no grains models) come out as identity matrices for every section fraction *)
From Coq Require Import Reals.
From WB Require Import RNum Quat QuatProofs.
Theorem C02_no_grains_models_refuted_for_slabs : forall (sp : special) (a : R),
  @average_rotation R (Rnum sp) (repeat 0%R 9) (repeat 0%R 9) a = [1; 0; 0; 0; 1; 0; 0; 0; 1]%R /\
  @average_rotation R (Rnum sp) (repeat 0%R 9) (repeat 0%R 9) a <> repeat 0%R 9.
Proof.
  intros sp a. split; [exact (zero_rotations_become_identity sp a)|].
  rewrite (zero_rotations_become_identity sp a). cbn [repeat]. intros H. injection H as H. revert H. apply R1_neq_R0.
Qed.

Print Assumptions C02_delete.
Print Assumptions C02_covering_fold.
Print Assumptions C02_permute.
Print Assumptions C02_tag_last.
Print Assumptions C02_op_replace.
Print Assumptions C02_op_add_subtract.
Print Assumptions C02_composition_listed.
Print Assumptions C02_composition_unlisted.
Print Assumptions C02_model_stack.
Print Assumptions C02_no_models.
Print Assumptions C02_no_grains_models_refuted_for_slabs.
