(** * PolySpec: the polygon test over R with its specification (closed polygon = boundary or
    non-zero winding number) and the correctness theorem; linked to the generic kernel in PolyProofs.v. *)
From Coq Require Import Reals Lra Lia List ZArith Bool Psatz.
Import ListNotations.
Open Scope R_scope.

Definition pt := (R*R)%type.
Definition leb (x y:R) : bool := if Rle_dec x y then true else false.
Definition ltb (x y:R) : bool := if Rlt_dec x y then true else false.
Lemma leb_spec x y : reflect (x <= y) (leb x y). Proof. unfold leb; destruct (Rle_dec x y); constructor; auto. Qed.
Lemma ltb_spec x y : reflect (x < y) (ltb x y). Proof. unfold ltb; destruct (Rlt_dec x y); constructor; auto. Qed.

Section P.
Variable eps : R.
Variable approx : R -> R -> bool.

Definition is_left (pj pi p : pt) : R :=
  (fst pi - fst pj) * (snd p - snd pj) - (fst p - fst pj) * (snd pi - snd pj).
Definition dotp (pj pi p : pt) := (fst p - fst pj) * (fst pi - fst pj) + (snd p - snd pj) * (snd pi - snd pj).
Definition sqlen (pj pi : pt) := (fst pi - fst pj) * (fst pi - fst pj) + (snd pi - snd pj) * (snd pi - snd pj).
Definition on_segment (pj pi p : pt) : bool := leb 0 (dotp pj pi p) && leb (dotp pj pi p) (sqlen pj pi).

Inductive edge_res := OnB | Up | Down | Nothing.
Definition edge (pj pi p : pt) : edge_res :=
  if leb (snd pj) (snd p) then
    if approx (fst pi) (fst p) && approx (snd pi) (snd p) then OnB else
    if leb (snd p) (snd pi) then
      let il := is_left pj pi p in
      if ltb 0 il && ltb (snd p) (snd pi) then Up
      else if ltb (Rabs il) eps then (if on_segment pj pi p then OnB else Nothing)
      else Nothing
    else Nothing
  else
    if leb (snd pi) (snd p) then
      let il := is_left pj pi p in
      if ltb il 0 then Down
      else if ltb (Rabs il) eps then (if on_segment pj pi p then OnB else Nothing)
      else Nothing
    else Nothing.

Fixpoint scan (prev : pt) (l : list pt) (p : pt) (wn : Z) : option Z :=
  match l with
  | [] => Some wn
  | pi :: l' => match edge prev pi p with
      | OnB => None | Up => scan pi l' p (wn+1)%Z | Down => scan pi l' p (wn-1)%Z | Nothing => scan pi l' p wn end
  end.
Definition contains (poly : list pt) (p : pt) : bool :=
  match scan (last poly (0,0)) poly p 0%Z with None => true | Some wn => negb (Z.eqb wn 0) end.

(* ---- spec ---- *)
Fixpoint edges_from (prev : pt) (l : list pt) : list (pt*pt) :=
  match l with [] => [] | x :: l' => (prev,x) :: edges_from x l' end.
Definition edges (poly : list pt) := edges_from (last poly (0,0)) poly.

Definition on_seg (pj pi p : pt) : Prop :=
  exists t, 0 <= t <= 1 /\ fst p = fst pj + t * (fst pi - fst pj) /\ snd p = snd pj + t * (snd pi - snd pj).
Definition on_boundary poly p := exists e, In e (edges poly) /\ on_seg (fst e) (snd e) p.
Definition cross (pj pi p : pt) : Z :=
  if leb (snd pj) (snd p) && ltb (snd p) (snd pi) && ltb 0 (is_left pj pi p) then 1%Z
  else if leb (snd pi) (snd p) && ltb (snd p) (snd pj) && ltb (is_left pj pi p) 0 then (-1)%Z else 0%Z.
Definition wn_spec poly p : Z := fold_right (fun e acc => (cross (fst e) (snd e) p + acc)%Z) 0%Z (edges poly).
Definition inside poly p := on_boundary poly p \/ wn_spec poly p <> 0%Z.

(* exact regime *)
Definition exact poly p :=
  (forall e, In e (edges poly) -> Rabs (is_left (fst e) (snd e) p) < eps -> is_left (fst e) (snd e) p = 0) /\
  (forall v, In v poly -> approx (fst v) (fst p) = true -> approx (snd v) (snd p) = true -> v = p).
Definition nondegenerate poly := forall e, In e (edges poly) -> fst e <> snd e.
Hypothesis eps_pos : 0 < eps.

Lemma on_seg_dot pj pi p : pj <> pi ->
  (on_seg pj pi p <-> is_left pj pi p = 0 /\ 0 <= dotp pj pi p <= sqlen pj pi).
Proof.
  intros Hne. destruct pj as [xj yj], pi as [xi yi], p as [x y]. unfold on_seg, is_left, dotp, sqlen; cbn [fst snd].
  assert (Hsq : 0 < (xi-xj)*(xi-xj) + (yi-yj)*(yi-yj)).
  { assert (sqp : forall a, a <> 0 -> 0 < a*a) by (intros a Ha; apply (Rsqr_pos_lt a Ha)).
    assert (sqn : forall a, 0 <= a*a) by (intros a; apply Rle_0_sqr).
    destruct (Req_dec xi xj) as [Hx|Hx]; [destruct (Req_dec yi yj) as [Hy|Hy]; [subst; congruence|]|].
    - pose proof (sqp (yi-yj) ltac:(lra)). pose proof (sqn (xi-xj)). lra.
    - pose proof (sqp (xi-xj) ltac:(lra)). pose proof (sqn (yi-yj)). lra. }
  split.
  - intros (t & Ht & -> & ->). split; [ring|]. split; nra.
  - intros (Hil & Hd1 & Hd2).
    set (s := (xi-xj)*(xi-xj) + (yi-yj)*(yi-yj)) in *.
    set (D := (x - xj) * (xi - xj) + (y - yj) * (yi - yj)) in *.
    exists (D / s).
    assert (Hs : s <> 0) by lra.
    assert (Hx : (x - xj) * s = D * (xi - xj)).
    { unfold s, D. replace ((x - xj) * ((xi - xj) * (xi - xj) + (yi - yj) * (yi - yj)) - ((x - xj) * (xi - xj) + (y - yj) * (yi - yj)) * (xi - xj))
        with (- (yi-yj) * ((xi - xj) * (y - yj) - (x - xj) * (yi - yj))) in * by ring.
      assert (E: (x - xj) * ((xi - xj) * (xi - xj) + (yi - yj) * (yi - yj)) - ((x - xj) * (xi - xj) + (y - yj) * (yi - yj)) * (xi - xj) = - (yi-yj) * ((xi - xj) * (y - yj) - (x - xj) * (yi - yj))) by ring.
      rewrite Hil in E. lra. }
    assert (Hy : (y - yj) * s = D * (yi - yj)).
    { assert (E: (y - yj) * ((xi - xj) * (xi - xj) + (yi - yj) * (yi - yj)) - ((x - xj) * (xi - xj) + (y - yj) * (yi - yj)) * (yi - yj) = (xi-xj) * ((xi - xj) * (y - yj) - (x - xj) * (yi - yj))) by ring.
      rewrite Hil in E. unfold s, D. lra. }
    assert (Hinv : D / s * s = D) by (field; lra).
    split; [split|split].
    + apply Rmult_le_reg_r with s; [lra|]. rewrite Hinv. lra.
    + apply Rmult_le_reg_r with s; [lra|]. rewrite Hinv. lra.
    + apply Rmult_eq_reg_r with s; [|lra]. rewrite Rmult_plus_distr_r. replace (D / s * (xi - xj) * s) with (D / s * s * (xi-xj)) by ring. rewrite Hinv. lra.
    + apply Rmult_eq_reg_r with s; [|lra]. rewrite Rmult_plus_distr_r. replace (D / s * (yi - yj) * s) with (D / s * s * (yi-yj)) by ring. rewrite Hinv. lra.
Qed.

Ltac brk := repeat match goal with
  | |- context [leb ?a ?b] => destruct (leb_spec a b)
  | |- context [ltb ?a ?b] => destruct (ltb_spec a b)
  | H : context [leb ?a ?b] |- _ => destruct (leb_spec a b)
  | H : context [ltb ?a ?b] |- _ => destruct (ltb_spec a b)
  end.

Lemma on_segment_true pj pi p : on_segment pj pi p = true <-> 0 <= dotp pj pi p <= sqlen pj pi.
Proof. unfold on_segment. destruct (leb_spec 0 (dotp pj pi p)), (leb_spec (dotp pj pi p) (sqlen pj pi)); cbn; split; intros; try lra; try discriminate; auto. Qed.

(* L1: soundness of OnB *)
Lemma edge_OnB_sound pj pi p : pj <> pi ->
  (Rabs (is_left pj pi p) < eps -> is_left pj pi p = 0) ->
  (approx (fst pi) (fst p) = true -> approx (snd pi) (snd p) = true -> pi = p) ->
  edge pj pi p = OnB -> on_seg pj pi p.
Proof.
  intros Hne Hex Hap. unfold edge.
  destruct (leb (snd pj) (snd p)).
  - destruct (approx (fst pi) (fst p)) eqn:A1, (approx (snd pi) (snd p)) eqn:A2; cbn [andb].
    1:{ intros _. rewrite <- (Hap eq_refl eq_refl). exists 1. split; [lra|]. split; ring. }
    all: destruct (leb (snd p) (snd pi)); try discriminate;
         destruct (ltb 0 (is_left pj pi p) && ltb (snd p) (snd pi)); try discriminate;
         destruct (ltb_spec (Rabs (is_left pj pi p)) eps); try discriminate;
         destruct (on_segment pj pi p) eqn:E; try discriminate; intros _;
         apply on_seg_dot; auto; split; [auto| apply on_segment_true; auto].
  - destruct (leb (snd pi) (snd p)); try discriminate.
    destruct (ltb (is_left pj pi p) 0); try discriminate.
    destruct (ltb_spec (Rabs (is_left pj pi p)) eps); try discriminate.
    destruct (on_segment pj pi p) eqn:E; try discriminate; intros _.
    apply on_seg_dot; auto; split; [auto| apply on_segment_true; auto].
Qed.

(* L2: completeness on one edge, up to the start vertex *)
Lemma edge_complete pj pi p : pj <> pi -> on_seg pj pi p -> edge pj pi p = OnB \/ p = pj.
Proof.
  intros Hne Hon. pose proof (proj1 (on_seg_dot pj pi p Hne) Hon) as (Hil & Hd).
  assert (Hos : on_segment pj pi p = true) by (apply on_segment_true; auto).
  destruct Hon as (t & Ht & Hx & Hy).
  unfold edge. rewrite Hil, Rabs_R0, Hos.
  destruct (ltb_spec 0 eps); [|lra].
  destruct (leb_spec (snd pj) (snd p)).
  - destruct (approx (fst pi) (fst p) && approx (snd pi) (snd p)); [left; reflexivity|].
    destruct (leb_spec (snd p) (snd pi)).
    + destruct (ltb_spec 0 0); [lra|]. cbn [andb]. left; reflexivity.
    + right. assert (t = 0) by nra. subst t. destruct p, pj; cbn [fst snd] in *. f_equal; lra.
  - destruct (leb_spec (snd pi) (snd p)).
    + destruct (ltb_spec 0 0); [lra|]. left; reflexivity.
    + exfalso.
      assert (H1: 0 <= t * (snd pi - snd p)) by (apply Rmult_le_pos; lra).
      assert (H2: 0 <= (1-t) * (snd pj - snd p)) by (apply Rmult_le_pos; lra).
      assert (H3: (1-t) * (snd pj - snd p) + t * (snd pi - snd p) = 0) by (rewrite Hy at 1 2; ring).
      destruct (Rle_dec t (1/2)).
      * assert (0 < (1-t) * (snd pj - snd p)) by (apply Rmult_lt_0_compat; lra). lra.
      * assert (0 < t * (snd pi - snd p)) by (apply Rmult_lt_0_compat; lra). lra.
Qed.

(* L3: the end vertex of an edge is always caught by that edge *)
Lemma edge_endpoint pk pj : pk <> pj -> edge pk pj pj = OnB.
Proof.
  intros Hne.
  assert (Hil : is_left pk pj pj = 0) by (unfold is_left; ring).
  assert (Hos : on_segment pk pj pj = true).
  { apply on_segment_true. unfold dotp, sqlen. split; [|lra].
    pose proof (Rle_0_sqr (fst pj - fst pk)); pose proof (Rle_0_sqr (snd pj - snd pk)). unfold Rsqr in *. lra. }
  unfold edge. rewrite Hil, Rabs_R0, Hos.
  destruct (ltb_spec 0 eps); [|lra]. destruct (ltb_spec 0 0); [lra|]. cbn [andb].
  destruct (leb_spec (snd pk) (snd pj)).
  - destruct (approx (fst pj) (fst pj) && approx (snd pj) (snd pj)); [reflexivity|].
    destruct (leb_spec (snd pj) (snd pj)); [reflexivity|lra].
  - destruct (leb_spec (snd pj) (snd pj)); [reflexivity|lra].
Qed.

(* L6: pointwise winding contribution *)
Lemma edge_cross pj pi p :
  (Rabs (is_left pj pi p) < eps -> is_left pj pi p = 0) ->
  match edge pj pi p with OnB => True | Up => cross pj pi p = 1%Z | Down => cross pj pi p = (-1)%Z | Nothing => cross pj pi p = 0%Z end.
Proof.
  intros Hex. unfold edge, cross.
  destruct (leb_spec (snd pj) (snd p)).
  - destruct (approx (fst pi) (fst p) && approx (snd pi) (snd p)); [exact I|].
    destruct (leb_spec (snd p) (snd pi)).
    + destruct (ltb_spec 0 (is_left pj pi p)), (ltb_spec (snd p) (snd pi)); cbn [andb]; try reflexivity.
      all: destruct (ltb_spec (Rabs (is_left pj pi p)) eps); [destruct (on_segment pj pi p); [exact I|]|].
      all: destruct (leb_spec (snd pi) (snd p)); cbn [andb]; try reflexivity.
      all: destruct (ltb_spec (snd p) (snd pj)); cbn [andb]; try reflexivity; try lra.
    + destruct (ltb_spec (snd p) (snd pi)); [lra|]. cbn [andb].
      destruct (leb_spec (snd pi) (snd p)); [|lra]. destruct (ltb_spec (snd p) (snd pj)); [lra|]. reflexivity.
  - cbn [andb]. destruct (leb_spec (snd pi) (snd p)).
    + destruct (ltb_spec (snd p) (snd pj)); [|lra]. cbn [andb].
      destruct (ltb_spec (is_left pj pi p) 0); [reflexivity|].
      destruct (ltb_spec (Rabs (is_left pj pi p)) eps); [destruct (on_segment pj pi p); [exact I|reflexivity]|reflexivity].
    + reflexivity.
Qed.

(* list level *)
Lemma edges_from_snd prev l x : In x l -> exists k, In (k,x) (edges_from prev l).
Proof. revert prev. induction l as [|y l IH]; intros prev H; [destruct H|].
  destruct H as [->|H]; cbn; [exists prev; left; reflexivity|]. destruct (IH y H) as [k Hk]. exists k; right; exact Hk. Qed.
Lemma edges_from_fst prev l e : In e (edges_from prev l) -> fst e = prev \/ In (fst e) l.
Proof. revert prev. induction l as [|y l IH]; intros prev H; [destruct H|]. cbn in H.
  destruct H as [<-|H]; [left; reflexivity|]. right. destruct (IH y H); [left; congruence|right; assumption]. Qed.
Lemma edges_from_snd_in prev l e : In e (edges_from prev l) -> In (snd e) l.
Proof. revert prev. induction l as [|y l IH]; intros prev H; [destruct H|]. cbn in H.
  destruct H as [<-|H]; [left; reflexivity|right; eapply IH; eauto]. Qed.
Lemma last_in (l : list pt) d : l <> [] -> In (last l d) l.
Proof. induction l as [|x l IH]; [congruence|]. intros _. destruct l as [|y l]; [left; reflexivity|]. right. apply IH. congruence. Qed.

Lemma scan_spec p : forall l prev wn,
  (forall e, In e (edges_from prev l) -> Rabs (is_left (fst e) (snd e) p) < eps -> is_left (fst e) (snd e) p = 0) ->
  match scan prev l p wn with
  | None => exists e, In e (edges_from prev l) /\ edge (fst e) (snd e) p = OnB
  | Some w => (forall e, In e (edges_from prev l) -> edge (fst e) (snd e) p <> OnB) /\
              w = (wn + fold_right (fun e acc => (cross (fst e) (snd e) p + acc)%Z) 0%Z (edges_from prev l))%Z
  end.
Proof.
  induction l as [|x l IH]; intros prev wn Hex; cbn [scan edges_from fold_right].
  - split; [intros e []|lia].
  - pose proof (edge_cross prev x p (Hex (prev,x) (or_introl eq_refl))) as Hc. cbn [fst snd] in *.
    assert (Hex' : forall e, In e (edges_from x l) -> Rabs (is_left (fst e) (snd e) p) < eps -> is_left (fst e) (snd e) p = 0)
      by (intros e He; apply Hex; right; exact He).
    destruct (edge prev x p) eqn:E.
    + exists (prev,x). split; [left; reflexivity|exact E].
    + specialize (IH x (wn+1)%Z Hex'). destruct (scan x l p (wn+1)%Z).
      * destruct IH as [HnB ->]. split; [|lia]. intros e [<-|He]; [cbn; congruence|auto].
      * destruct IH as (e & He & HB). exists e; split; [right; exact He|exact HB].
    + specialize (IH x (wn-1)%Z Hex'). destruct (scan x l p (wn-1)%Z).
      * destruct IH as [HnB ->]. split; [|lia]. intros e [<-|He]; [cbn; congruence|auto].
      * destruct IH as (e & He & HB). exists e; split; [right; exact He|exact HB].
    + specialize (IH x wn Hex'). destruct (scan x l p wn).
      * destruct IH as [HnB ->]. split; [|lia]. intros e [<-|He]; [cbn; congruence|auto].
      * destruct IH as (e & He & HB). exists e; split; [right; exact He|exact HB].
Qed.

Theorem contains_correct poly p : poly <> [] -> nondegenerate poly -> exact poly p ->
  (contains poly p = true <-> inside poly p).
Proof.
  intros Hne Hnd [Hex Hap]. unfold contains, inside, wn_spec, on_boundary, edges in *.
  set (prev := last poly (0,0)) in *.
  pose proof (scan_spec p poly prev 0%Z Hex) as Hs.
  assert (Hbnd : (exists e, In e (edges_from prev poly) /\ edge (fst e) (snd e) p = OnB) <->
                 (exists e, In e (edges_from prev poly) /\ on_seg (fst e) (snd e) p)).
  { split.
    - intros (e & He & HB). exists e. split; [exact He|]. apply edge_OnB_sound; auto.
      intros A1 A2. apply Hap; auto. eapply edges_from_snd_in; eauto.
    - intros (e & He & Hon). destruct (edge_complete (fst e) (snd e) p (Hnd e He) Hon) as [HB|Hp].
      + exists e; split; auto.
      + (* p is the start vertex of e: use the edge ending there *)
        assert (Hin : In (fst e) poly).
        { destruct (edges_from_fst _ _ _ He) as [->|H]; [apply last_in; exact Hne|exact H]. }
        destruct (edges_from_snd prev poly (fst e) Hin) as [k Hk].
        exists (k, fst e). split; [exact Hk|]. cbn [fst snd]. rewrite Hp.
        apply edge_endpoint. apply (Hnd _ Hk). }
  destruct (scan prev poly p 0%Z) as [w|].
  - destruct Hs as [HnB ->]. rewrite Z.add_0_l. split.
    + intros H. right. destruct (Z.eqb_spec (fold_right (fun e acc => (cross (fst e) (snd e) p + acc)%Z) 0%Z (edges_from prev poly)) 0); [discriminate|assumption].
    + intros [Hb|Hw].
      * exfalso. apply Hbnd in Hb. destruct Hb as (e & He & HB). exact (HnB e He HB).
      * destruct (Z.eqb_spec (fold_right (fun e acc => (cross (fst e) (snd e) p + acc)%Z) 0%Z (edges_from prev poly)) 0); [contradiction|reflexivity].
  - split; [intros _; left; apply Hbnd; exact Hs|reflexivity].
Qed.
End P.
