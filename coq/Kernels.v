(** * Kernels: approx, polygon test, kd-tree search, depth surfaces (generic over [Num]).
    Mirrors utilities.h:48-52, utilities.cc:45-162, kd_tree.cc:60-208, objects/surface.cc. *)
From Coq Require Import List Arith NArith ZArith Lia Bool.
From WB Require Import Num Base.
Import ListNotations.

Section Kernels.
  Context {F : Type} {NF : Num F}.
  Local Open Scope num_scope.

  Definition pt2 : Type := F * F.

  (** [approx(a,b)] with the default error factor 1e4 (utilities.h:48-52) *)
  Definition approx (a b : F) : bool :=
    fabs (a - b) <? ((fabs (fmin a b) * feps) * fdec 1 4).

  (** ** polygon test (utilities.cc:62-162) *)
  (** The verdict of one edge j -> i:  the scan either stops with "inside" or adds to the
      winding counter.  [wn] is the C++ [size_t] counter; its wrap-around is kept explicit
      by counting modulo 2^64 in [N]. *)
  Inductive edge_verdict := OnBoundary | Delta (d : Z).

  Definition is_left (pj pi p : pt2) : F :=
    ((fst pi - fst pj) * (snd p - snd pj)) - ((fst p - fst pj) * (snd pi - snd pj)).

  Definition on_segment (pj pi p : pt2) : bool :=
    let dot := ((fst p - fst pj) * (fst pi - fst pj)) + ((snd p - snd pj) * (snd pi - snd pj)) in
    if f0 <=? dot then
      let sq := ((fst pi - fst pj) * (fst pi - fst pj)) + ((snd pi - snd pj) * (snd pi - snd pj)) in
      dot <=? sq
    else false.

  Definition edge (pj pi p : pt2) : edge_verdict :=
    if snd pj <=? snd p then
      if approx (fst pi) (fst p) && approx (snd pi) (snd p) then OnBoundary
      else if snd p <=? snd pi then
        let il := is_left pj pi p in
        if (f0 <? il) && (snd p <? snd pi) then Delta 1
        else if fabs il <? feps then (if on_segment pj pi p then OnBoundary else Delta 0)
        else Delta 0
      else Delta 0
    else
      if snd pi <=? snd p then
        let il := is_left pj pi p in
        if il <? f0 then Delta (-1)
        else if fabs il <? feps then (if on_segment pj pi p then OnBoundary else Delta 0)
        else Delta 0
      else Delta 0.

  (** scan edges (prev -> v) for v in the list, carrying the previous vertex *)
  Fixpoint poly_scan (prev : pt2) (vs : list pt2) (p : pt2) (wn : Z) : option Z :=
    match vs with
    | [] => Some wn
    | v :: r =>
        match edge prev v p with
        | OnBoundary => None
        | Delta d => poly_scan v r p (wn + d)%Z
        end
    end.

  Definition wrap64 (z : Z) : Z := (z mod 18446744073709551616)%Z.

  Definition polygon_contains_impl (poly : list pt2) (p : pt2) : bool :=
    match poly with
    | [] => false
    | v0 :: _ =>
        match poly_scan (last poly v0) poly p 0 with
        | None => true
        | Some wn => negb (Z.eqb (wrap64 wn) 0)
        end
    end.

  (** spherical wrapper: the point and its 2 pi alias (utilities.cc:45-60) *)
  Definition alias_point (p : pt2) : pt2 :=
    (fst p + (if fst p <? f0 then f2 * fpi else (- f2) * fpi), snd p).

  Definition polygon_contains (sph : bool) (poly : list pt2) (p : pt2) : bool :=
    if sph then polygon_contains_impl poly p || polygon_contains_impl poly (alias_point p)
    else polygon_contains_impl poly p.

  (** ** kd-tree of triangle centroids (kd_tree.cc) *)
  Record kdnode := { kd_index : nat; kd_x : F; kd_y : F }.
  Definition kd_key (yaxis : bool) (n : kdnode) : F := if yaxis then kd_y n else kd_x n.
  Definition pt_key (yaxis : bool) (p : pt2) : F := if yaxis then snd p else fst p.
  Definition kd_default : kdnode := {| kd_index := 0; kd_x := f0; kd_y := f0 |}.
  Definition kd_dist (n : kdnode) (p : pt2) : F :=
    fsqrt (((kd_x n - fst p) * (kd_x n - fst p)) + ((kd_y n - snd p) * (kd_y n - snd p))).

  (** state of find_closest_points: (min_index, min_distance, visited list in visiting order) *)
  Definition kd_state : Type := nat * F * list (nat * F).

  Definition kd_visit (mid : nat) (d : F) (st : kd_state) : kd_state :=
    let '(mi, md, vs) := st in
    if d <? md then (mid, d, vs ++ [(mid, d)]) else (mi, md, vs ++ [(mid, d)]).

  Fixpoint kd_search (fuel : nat) (nodes : list kdnode) (cp : pt2) (l r : nat) (yaxis : bool)
           (st : kd_state) : kd_state :=
    match fuel with
    | O => st
    | S f =>
        let mid := Nat.div2 (l + r) in
        let nd := nth mid nodes kd_default in
        let d := kd_dist nd cp in
        if pt_key yaxis cp <? kd_key yaxis nd then
          let s1 := if Nat.ltb l mid then kd_search f nodes cp l (mid - 1) (negb yaxis) st else st in
          let s2 := kd_visit mid d s1 in
          if Nat.ltb mid r then
            (if (kd_key yaxis nd - pt_key yaxis cp) <? snd (fst s2)
             then kd_search f nodes cp (mid + 1) r (negb yaxis) s2 else s2)
          else s2
        else
          let s1 := if Nat.ltb mid r then kd_search f nodes cp (mid + 1) r (negb yaxis) st else st in
          let s2 := kd_visit mid d s1 in
          if Nat.ltb l mid then
            (if (kd_key yaxis nd - pt_key yaxis cp) <? snd (fst s2)
             then kd_search f nodes cp l (mid - 1) (negb yaxis) s2 else s2)
          else s2
    end.

  Definition find_closest_points (nodes : list kdnode) (cp : pt2) : kd_state :=
    kd_search (length nodes) nodes cp 0 (length nodes - 1) false (0, fdmax, []).

  (** ** depth surfaces (objects/surface.cc) *)
  (** a triangle: three vertices (x, y, value) *)
  Definition tri : Type := (F * F * F) * (F * F * F) * (F * F * F).

  Definition tri_pre (t : tri) : list F :=
    let '((x0, y0, _), (x1, y1, _), (x2, y2, _)) := t in
    let p6 := - (((((- y1) * x2) + (y0 * ((- x1) + x2))) + (x0 * (y1 - y2))) + (x1 * y2)) in
    [ (y0 * x2) - (x0 * y2); y2 - y0; x0 - x2;
      (x0 * y1) - (y0 * x1); y0 - y1; x1 - x0;
      p6; f1 / p6 ].

  (** returns the interpolated value if the point is in the triangle *)
  Definition in_triangle (t : tri) (p : pt2) : option F :=
    let pre := tri_pre t in
    let g i := nth i pre f0 in
    let factor := fdec 1 4 in
    let s_na := - ((g 0 + (g 1 * fst p)) + (g 2 * snd p)) in
    let t_na := - ((g 3 + (g 4 * fst p)) + (g 5 * snd p)) in
    let rel := factor * feps in
    let tol_s := rel * ((fabs (g 0) + fabs (g 1 * fst p)) + fabs (g 2 * snd p)) in
    let tol_t := rel * ((fabs (g 3) + fabs (g 4 * fst p)) + fabs (g 5 * snd p)) in
    if ((- tol_s) <=? s_na) && ((- tol_t) <=? t_na)
       && (((s_na + t_na) - g 6) <=? ((tol_s + tol_t) + (g 6 * rel))) then
      let s := g 7 * s_na in
      let t' := g 7 * t_na in
      let '((_, _, v0), (_, _, v1), (_, _, v2)) := t in
      Some (((v0 * ((f1 - s) - t')) + (v1 * s)) + (v2 * t'))
    else None.

  Record dsurf := {
    ds_const : bool;
    ds_min : F;
    ds_max : F;
    ds_tris : list tri;
    ds_nodes : list kdnode      (* the kd-tree node array as built by the implementation *)
  }.

  Definition tri_default : tri := ((f0, f0, f0), (f0, f0, f0), (f0, f0, f0)).

  Definition try_node (s : dsurf) (p : pt2) (node_pos : nat) : option F :=
    in_triangle (nth (kd_index (nth node_pos (ds_nodes s) kd_default)) (ds_tris s) tri_default) p.

  Fixpoint first_some {A B} (f : A -> option B) (l : list A) : option B :=
    match l with
    | [] => None
    | a :: r => match f a with Some b => Some b | None => first_some f r end
    end.

  Definition orelse {A} (a : option A) (b : unit -> option A) : option A :=
    match a with Some x => Some x | None => b tt end.

  (** [Surface::local_value]; [None] = "not in any triangle" (the C++ throws) *)
  Definition surface_local_value (s : dsurf) (sph : bool) (p : pt2) : option F :=
    if ds_const s then Some (ds_min s) else
    let st := find_closest_points (ds_nodes s) p in
    let p' := alias_point p in
    let st' := find_closest_points (ds_nodes s) p' in
    orelse (try_node s p (fst (fst st))) (fun _ =>
    orelse (if sph then try_node s p' (fst (fst st')) else None) (fun _ =>
    orelse (first_some (fun v => try_node s p (fst v)) (snd st)) (fun _ =>
    orelse (if sph then first_some (fun v => try_node s p' (fst v)) (snd st') else None) (fun _ =>
    first_some (fun nd =>
                  let t := nth (kd_index nd) (ds_tris s) tri_default in
                  orelse (in_triangle t p) (fun _ => if sph then in_triangle t p' else None))
               (ds_nodes s))))).

  (** ** values at points: merge of corner defaults and listed points (parameters.cc:511-716) *)
  (** one entry of a "min depth"/"max depth" array: a value and, optionally, the points it holds at *)
  Definition vap_entry : Type := F * option (list pt2).

  Fixpoint find_same (acc : list (F * pt2)) (p : pt2) (i : nat) : option nat :=
    match acc with
    | [] => None
    | (_, q) :: r => if approx (fst q) (fst p) && approx (snd q) (snd p) then Some i else find_same r p (S i)
    end.

  Fixpoint set_value (acc : list (F * pt2)) (j : nat) (v : F) : list (F * pt2) :=
    match acc, j with
    | [], _ => []
    | (_, q) :: r, O => (v, q) :: r
    | x :: r, S j' => x :: set_value r j' v
    end.

  Definition merge_point (v : F) (acc : list (F * pt2)) (p : pt2) : list (F * pt2) :=
    match find_same acc p 0 with
    | Some j => set_value acc j v
    | None => acc ++ [(v, p)]
    end.

  Fixpoint set_first (n : nat) (v : F) (acc : list (F * pt2)) : list (F * pt2) :=
    match n, acc with
    | S n', (_, q) :: r => (v, q) :: set_first n' v r
    | _, _ => acc
    end.

  (** degree -> radian conversion of listed points in spherical worlds: c *= PI/180 *)
  Definition conv_point (sph : bool) (p : pt2) : pt2 :=
    if sph then (fst p * (fpi / fofZ 180), snd p * (fpi / fofZ 180)) else p.

  Definition merge_entry (sph : bool) (ncorner : nat) (acc : list (F * pt2)) (e : vap_entry) : list (F * pt2) :=
    match snd e with
    | Some ps => fold_left (merge_point (fst e)) (map (conv_point sph) ps) acc
    | None => set_first ncorner (fst e) acc
    end.

  (** case 3 of Parameters::get(name, additional_points): corners at the default value, then the entries in order *)
  Definition merge_values (sph : bool) (default : F) (corners : list pt2) (entries : list vap_entry) : list (F * pt2) :=
    fold_left (merge_entry sph (length corners)) entries (map (fun c => (default, c)) corners).

  (** Surface constructor: minimum and maximum of the nodal values *)
  Definition values_min (vs : list F) : F := fold_left (fun m v => if v <? m then v else m) vs (nth 0 vs f0).
  Definition values_max (vs : list F) : F := fold_left (fun m v => if m <? v then v else m) vs (nth 0 vs f0).
End Kernels.
