#!/bin/sh
# confirm_mutant.sh <ID> <k>: in the scratch worktree /tmp/mut_<ID> confirm that patch<k> builds, keeps the test suite
# result and that the demonstration distinguishes the unchanged from the changed code.  Prints a verdict.
ID=$1; K=$2
W=/tmp/${PFX:-mut}_$ID; O=/tmp/${PFX:-mut}_${ID}_out
cd $W || exit 2
git checkout -q -- . && git clean -fdq -e _b
ninja -C $W/_b -j8 >/dev/null 2>&1 || { echo "VERDICT $ID-$K baseline-build-failed"; exit 1; }
sh $O/demo$K/run.sh $W/_b > /tmp/confirm_${ID}_${K}_orig.txt 2>&1
git apply $O/patch$K.diff || { echo "VERDICT $ID-$K patch-does-not-apply"; exit 1; }
ninja -C $W/_b -j8 >/dev/null 2>&1 || { echo "VERDICT $ID-$K mutant-build-failed"; git checkout -q -- .; exit 1; }
ctest --test-dir $W/_b -j8 --timeout 900 > /tmp/confirm_${ID}_${K}_ctest.txt 2>&1
SUM=$(grep "tests passed" /tmp/confirm_${ID}_${K}_ctest.txt)
FAILED=$(sed -n '/The following tests FAILED/,/Errors while/p' /tmp/confirm_${ID}_${K}_ctest.txt | grep -c " - ")
ONLY=$(sed -n '/The following tests FAILED/,/Errors while/p' /tmp/confirm_${ID}_${K}_ctest.txt | grep " - " | tr -s ' ' | cut -d' ' -f4 | tr '\n' ',')
sh $O/demo$K/run.sh $W/_b > /tmp/confirm_${ID}_${K}_mut.txt 2>&1
git checkout -q -- . && git clean -fdq -e _b
ninja -C $W/_b -j8 >/dev/null 2>&1
if cmp -s /tmp/confirm_${ID}_${K}_orig.txt /tmp/confirm_${ID}_${K}_mut.txt; then DIFF=same; else DIFF=differs; fi
echo "VERDICT $ID-$K ctest='$SUM' failed=$FAILED [$ONLY] demo_output=$DIFF"
