#!/bin/sh
# collect_mutant.sh <ID> <k>: after confirm_mutant.sh said the mutant is good, store it under /verif/seeded/<ID>-<k>/
ID=$1; K=$2; O=/tmp/${PFX:-mut}_${ID}_out; D=/verif/seeded/$ID-$K
mkdir -p $D && cp $O/patch$K.diff $D/patch.diff && rm -rf $D/demo && cp -r $O/demo$K $D/demo && cp $O/meta$K.json $D/meta.json
rm -rf $D/demo/orig_build $D/demo/*.o $D/demo/query $D/demo/demo_bin 2>/dev/null
find $D/demo -type f -size +300k -delete
echo "stored $D"
