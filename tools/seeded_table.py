#!/usr/bin/env python3
"""seeded_table.py: print a markdown table of /verif/seeded/*/ (meta.json + result.json); with --write, replace the block
between the SEEDED-TABLE markers of DESIGN.md."""
import json
import os
import sys

VERIF = os.path.dirname(os.path.dirname(os.path.abspath(__file__)))


def main():
    rows = ["| change | property | what it changes | needs | caught by | how |", "|---|---|---|---|---|---|"]
    sd = os.path.join(VERIF, "seeded")
    for name in sorted(os.listdir(sd)):
        d = os.path.join(sd, name)
        if not os.path.isdir(d):
            continue
        meta = json.load(open(os.path.join(d, "meta.json")))
        res = json.load(open(os.path.join(d, "result.json"))) if os.path.exists(os.path.join(d, "result.json")) else {}
        caught = [c for c, r in res.get("checks", {}).items() if r.get("caught")]
        missed = [c for c, r in res.get("checks", {}).items() if not r.get("caught")]
        how = "; ".join("%s: %s%s" % (c, (res["checks"][c].get("what") or "")[:110], " (no-failing-input-found)" if res["checks"][c].get("no_failing_input") else "") for c in caught)
        rows.append("| %s | %s | %s | %s | %s | %s |" % (
            name, meta.get("property"), str(meta.get("summary", ""))[:160].replace("|", "/"), str(meta.get("trigger", ""))[:140].replace("|", "/"),
            (", ".join(caught) if caught else "**missed**" + (" (" + ", ".join(missed) + ")" if missed else " (not run)")), how.replace("|", "/")))
    text = "\n".join(rows)
    if "--write" in sys.argv:
        p = os.path.join(VERIF, "DESIGN.md")
        s = open(p).read()
        a, b = "<!-- SEEDED-TABLE-BEGIN -->", "<!-- SEEDED-TABLE-END -->"
        block = a + "\n" + text + "\n" + b
        if a in s:
            s = s[:s.index(a)] + block + s[s.index(b) + len(b):]
        else:
            s = s.replace("### 9.7 Where proof does not reach", block + "\n\n### 9.7 Where proof does not reach")
        open(p, "w").write(s)
    else:
        print(text)


if __name__ == "__main__":
    main()
