#!/usr/bin/env python3
"""run_seeded.py [name ...]: apply each seeded change of /verif/seeded/<name>/patch.diff to /repo's working tree, run the
quick check of its property (and any checks listed after --also), undo the change, and record what the check said in
/verif/seeded/<name>/result.json.  Never commits anything to /repo."""
import json
import os
import subprocess
import sys
import time

VERIF = os.path.dirname(os.path.dirname(os.path.abspath(__file__)))
REPO = os.environ.get("VERIF_REPO", "/repo")   # a background sweep runs on its own copy of the repository


def sh(cmd, cwd=None, timeout=3600):
    p = subprocess.run(cmd, shell=True, cwd=cwd, capture_output=True, text=True, timeout=timeout)
    return p.returncode, p.stdout + p.stderr


def main():
    args = sys.argv[1:]
    also = []
    if "--also" in args:
        i = args.index("--also")
        also = args[i + 1:]
        args = args[:i]
    names = args or sorted(d for d in os.listdir(os.path.join(VERIF, "seeded")) if os.path.isdir(os.path.join(VERIF, "seeded", d)))
    rc, o = sh("git -C %s status --porcelain --untracked-files=no" % REPO)
    if o.strip():
        print("refusing: /repo has local modifications:\n" + o)
        return 2
    for name in names:
        d = os.path.join(VERIF, "seeded", name)
        meta = json.load(open(os.path.join(d, "meta.json")))
        pid = meta["property"]
        rc, o = sh("git -C %s apply %s" % (REPO, os.path.join(d, "patch.diff")))
        if rc != 0:
            print("%s: patch does not apply: %s" % (name, o[-300:]))
            json.dump({"name": name, "property": pid, "applies": False}, open(os.path.join(d, "result.json"), "w"), indent=1)
            continue
        res = {"name": name, "property": pid, "applies": True, "checks": {}}
        try:
            for c in [pid] + [a for a in also if a != pid]:
                t0 = time.time()
                rc, o = sh("./check %s --tier quick" % c, cwd=VERIF, timeout=5400)
                lines = [l for l in o.splitlines() if l.startswith(("VIOLATION", "PASS", "FAIL", "BUILD-ERROR"))]
                caught = rc == 1 and any(l.startswith("VIOLATION property=%s " % c) for l in lines)
                rep = None
                for l in lines:
                    if l.startswith("VIOLATION") and "replay=" in l:
                        rp = l.split("replay=")[1].split()[0]
                        try:
                            rep = json.load(open(rp)).get("what")
                        except Exception:
                            rep = None
                        break
                res["checks"][c] = {"exit": rc, "caught": caught, "lines": lines[:6], "what": rep, "seconds": round(time.time() - t0, 1),
                                    "no_failing_input": any("no-failing-input-found" in l for l in lines)}
                print("%s: check %s -> %s %s" % (name, c, "CAUGHT" if caught else "missed (exit %d)" % rc, (rep or "")[:140]), flush=True)
        finally:
            sh("git -C %s checkout -- ." % REPO)
        json.dump(res, open(os.path.join(d, "result.json"), "w"), indent=1)
    rc, o = sh("./check SETUP", cwd=VERIF)
    print(o.strip().splitlines()[-1] if o.strip() else "")
    return 0


if __name__ == "__main__":
    sys.exit(main())
